"""C14 — WebSocket messages arrive intact and in order under every configuration.

Three socket-free set-ups, each after a *real* HTTP upgrade (so the deflate parameters are the ones
Tornado negotiated), all on the virtual loop over ``MemoryIOStream``:

ref_to_server  the harness is the client: ``vlib/wsref.py`` encodes the generated messages (masked) with
               generated fragmentation (any split points incl. empty fragments), ping/pong frames with
               payloads inserted in the gaps between fragments, RFC 7692 compression (RSV1 on the first
               fragment only, context takeover / window bits as negotiated, sync or full flush, level 0-9,
               per-message "send uncompressed"), delivered under generated TCP segmentation to
               ``HTTPServer.handle_stream`` -> ``WebSocketHandler.on_message``.  Messages the handler
               writes back are decoded by the strict ``wsref.Decoder``.
ref_to_client  the same with the harness as server (unmasked) facing ``websocket_connect`` (stream
               substituted through the TCPClient name); both ``on_message_callback`` and ``read_message``
               styles; the 101 response carries any RFC 7692 parameter combination.
pair           Tornado client <-> Tornado server through a ``Wire``; the harness decides how many bytes
               move in which direction when.

Oracle (statement): the application on the receiving side gets exactly the sent messages (type, content,
order); every ping is answered by one pong with the same payload, in order; every byte Tornado writes
after the handshake decodes under the strict reference decoder (header bits, minimal length form, mask bit
per role, RSV1 only with negotiated deflate and only on first fragments, inflate under the negotiated
window and context-takeover rules) to exactly the messages the application wrote -- so a symmetric
encode/decode bug cannot cancel out.  Nothing may be logged at ERROR level and the connection must
still be open at the end.

EITHER: window bits 8 (zlib cannot deflate a raw 256-byte window): only "the handshake settles, and if it
succeeds an uncompressed message still arrives" is asserted.  RSV1 on control frames and unmasked client
frames belong to C15.

Findings on the current tree (open; known_findings.d/C14.json, findings_inbox/C14-*.md):
  F-C14-control-frame-resets-compressed-flag  a ping/pong between the fragments of a compressed message
        clears the per-message "compressed" flag: the reassembled message is delivered without being
        inflated (binary: raw deflate bytes reach on_message; text: connection aborted as invalid UTF-8)
  F-C14-client-no-context-takeover  the client ignores `client_no_context_takeover` in the 101 response
        (httputil._parse_header drops value-less parameters): its second message back-references the
        first and a peer that reset its inflater cannot decode it

Sensitivity (quick tier, seed 1, scratch copy of /repo/tornado, one mutant at a time; all caught):
  M1 _write_frame: `data_len <= 0xFFFF` -> `< 0xFFFF` (65535 sent in the 64-bit form) -> C14.tornado_frames_undecodable (nonminimal_length)
  M2 decompress: the 00 00 ff ff tail is not re-appended                               -> C14.messages_received
  M3 decompress: fresh inflater for every message although context takeover is agreed  -> C14.messages_received
  M4 _receive_frame: _fragmented_message_buffer not cleared after the final fragment   -> C14.messages_received
  M5 _create_compressor: negotiated max window bits ignored (always 15)                -> C14.tornado_frames_undecodable (inflate under the agreed window)
  M6 ping handling: pong sent with an empty payload                                    -> C14.pongs
  M7 _receive_frame: 7-bit lengths 125/126 mis-dispatched                              -> C14.messages_received
  M8 _receive_frame: first masking key reused for later frames                         -> C14.pongs / C14.messages_received
  M9 _create_compressors: other_side computed wrongly, so the DEcompressor is built from this endpoint's own
     negotiated parameters instead of the peer's (only visible with an asymmetric negotiation and a peer message that
     back-references beyond the smaller window / into the previous message)               -> C14.messages_received
     (systematic since the deterministic part `deflate_grid`: 2 reference-peer set-ups x 64 parameter combinations x 6
     far-back-referencing messages in both directions; before that the Hypothesis part caught it at some seeds only)
  M12 _accept_connection: the branch that declines an unusable permessage-deflate offer no longer resets _compressor /
     _decompressor: after an offer declined for a CLIENT-side parameter (client_max_window_bits=7/16/abc) the handshake says
     "no extension" but every message the server writes is deflated with RSV1 set
                                                            -> C14.tornado_frames_undecodable (rsv1_without_extension), seeds 1-3
     New dimension `decline` (ref_to_server): 17 offers a server must decline -- bad/out-of-range/malformed window bits on
     either side, unknown valued and value-less parameters, duplicates, two declined offers, a declined offer followed by an
     acceptable one, an unknown extension -- followed by the ordinary exchange under whatever the 101 response agreed;
     deterministic part `decline_grid` (17 offers x 2 compression option sets, 6 operations in both directions).
  M11 _receive_frame: the max_message_size test lost its `not opcode_is_control` guard (a ping/pong between fragments is
     sized as its payload + the bytes buffered so far) -> C14.messages_received (the legal message and everything after it
     are lost, 1009 sent), seeds 1-3.  max_message_size is now a generated dimension of `main` (None / 300 / 1024 / 4096; with
     a limit every rep/raw message is sized limit-k, k = drawn length mod 131, label
     control_frame_between_fragments_near_limit) and the deterministic part `limit_grid` enumerates 2 set-ups x limits
     {256,1024} x k in {0,1,60,123,124,125,130} x ping/pong x payload {1,125} x 3 late split points.
  M10 control-frame length check off by one (`payloadlen >= 125`): a ping with the maximal legal payload of 125 bytes
     aborts the connection                                                                -> C14.pongs / C14.connection_closed
     (125-byte pings in the gaps and, since this round, 0/124/125-byte stand-alone pings)
  DESIGN's "reset the *compressor* each message despite takeover" is an equivalent mutant for this property
  (a persistent inflater decodes such a stream); the observable counterpart M3 (inflater) was used instead.
"""
import hashlib

from hypothesis import strategies as st

from vlib import vtime, wsharness as H, wsref
from vlib.httpharness import LogCapture
from vlib.util import det_urandom

PROPERTY = "C14"
READY = True
RULE = (
    "Hypothesis draws a set-up (ref_to_server / ref_to_client / pair), a deflate configuration (off; on with "
    "server/client no_context_takeover and server/client max_window_bits 9..15 where the role can negotiate "
    "them; Tornado compression_level 0-9 and mem_level 1-9; reference level/mem_level/flush mode), and <=8 "
    "operations: a message towards Tornado or from Tornado (text/binary; length from {0,1,125,126,127,65535,"
    "65536,70000} or 0..3000; content = repeats of a shared base (compressible, shared across messages so "
    "context takeover matters), hash-expanded incompressible bytes, or literal generated text incl. astral "
    "characters, or an incompressible block repeated at a distance beyond small LZ77 windows; split points in permille incl. repeated ones = empty fragments; control frames with "
    "payloads in chosen gaps or in every gap; send-uncompressed flag), stand-alone pings, and in `pair` "
    "partial deliveries in either direction; plus a TCP segmentation pattern.  non-trivial = some message "
    "is >=126 bytes or fragmented or compressed AND reaches Tornado in >=2 segments; distinct = SHA-1 of the case"
)
ASSUMPTIONS = [
    "vlib/wsref.py (written from RFC 6455 / RFC 7692 with zlib) is the intended wire format",
    "a server may add server_no_context_takeover / client_no_context_takeover / server_max_window_bits to its "
    "response unasked and client_max_window_bits when the client offered it (RFC 7692 7.1.1, 7.1.2); Tornado's "
    "client always offers client_max_window_bits",
    "the agreed parameters are those in the 101 response (for Tornado's server: whatever it echoes)",
]
TECHNIQUE = "property-based testing (Hypothesis): differential round trip against an independent RFC 6455/7692 codec over a harness-scheduled in-memory transport"
LEVEL_TEXT = (
    "bounded exploration: ~1000 sessions (quick) / ~20k (thorough) of <=8 operations, messages <=70 000 bytes, "
    "<=200 KiB per session; no claim for longer histories or larger messages"
)
SHARDS = 16

# ------------------------------------------------------------------------------------------- generators
LENS = [0, 1, 125, 126, 127, 65535, 65536, 70000]
# permessage-deflate offers a server must DECLINE (RFC 7692 7.1: unknown parameter, value out of range or malformed,
# a window zlib cannot produce) -- alone, repeated, or followed by an acceptable offer.  Whatever the 101 response says
# is the agreement: usually "no extension", so nothing Tornado sends afterwards may carry RSV1.
DECLINE_OFFERS = [
    "permessage-deflate; client_max_window_bits=7", "permessage-deflate; client_max_window_bits=16",
    "permessage-deflate; client_max_window_bits=abc", "permessage-deflate; client_max_window_bits=0",
    "permessage-deflate; server_max_window_bits=7", "permessage-deflate; server_max_window_bits=16",
    "permessage-deflate; server_max_window_bits=abc", "permessage-deflate; server_max_window_bits=8",
    "permessage-deflate; foo=1", "permessage-deflate; bar",
    "permessage-deflate; client_max_window_bits=10; client_max_window_bits=7",
    "permessage-deflate; client_no_context_takeover; client_max_window_bits=16",
    "permessage-deflate; server_no_context_takeover; client_max_window_bits=7",
    "permessage-deflate; client_max_window_bits=7, permessage-deflate; client_max_window_bits=16",
    "permessage-deflate; client_max_window_bits=7, permessage-deflate; server_max_window_bits=10",
    "permessage-deflate; foo=1, permessage-deflate",
    "x-webkit-deflate-frame",
]


BASES = [
    b"hello world, ",
    b"The quick brown fox jumps over the lazy dog. ",
    "héllo wörld ✓ \U0001F600 中文 ".encode("utf-8"),
    b"a",
    b"{\"id\": 12345, \"name\": \"tornado\", \"tags\": [\"x\", \"y\"]}",
]
text_chars = st.characters(exclude_categories=("Cs",))
len_s = st.one_of(st.sampled_from(LENS), st.integers(0, 300), st.integers(0, 3000))
content_s = st.one_of(
    st.tuples(st.just("rep"), len_s, st.integers(0, len(BASES) - 1)),
    st.tuples(st.just("rep"), len_s, st.integers(0, len(BASES) - 1)),
    st.tuples(st.just("raw"), len_s, st.binary(min_size=1, max_size=3)),
    st.tuples(st.just("lit"), st.text(text_chars, max_size=40)),
    # an incompressible block repeated: matches at distance = block size, i.e. beyond small LZ77 windows
    st.tuples(st.just("rawrep"), st.sampled_from([1300, 3000, 9000, 40000]), st.binary(min_size=1, max_size=2),
              st.sampled_from([600, 1100, 2500, 17000])),
)
gap_s = st.tuples(st.integers(0, 5), st.sampled_from(["ping", "ping", "pong"]), st.binary(max_size=6) | st.sampled_from([b"p" * 125]))
msg_s = st.fixed_dictionaries({
    "binary": st.booleans(),
    "content": content_s,
    "cuts": st.lists(st.integers(0, 1000), max_size=4),
    "gaps": st.lists(gap_s, max_size=3),
    "every_gap": st.sampled_from([False, False, False, True]),
    "compress": st.sampled_from([True, True, True, False]),
    "flush": st.sampled_from(["sync", "sync", "full"]),
})
op_s = st.one_of(
    st.tuples(st.just("in"), msg_s),
    st.tuples(st.just("in"), msg_s),
    st.tuples(st.just("out"), msg_s),
    st.tuples(st.just("out"), msg_s.map(lambda m: dict(m, content=("rep", 60, 1)))),   # shared content: context takeover matters
    st.tuples(st.just("ping_in"), st.binary(max_size=8) | st.sampled_from([b"", b"q" * 124, b"q" * 125])),   # 125 = largest legal control payload
    st.tuples(st.just("deliver"), st.booleans(), st.integers(1, 200)),
)
wbits_s = st.sampled_from([None, 9, 10, 11, 12, 13, 14, 15])
deflate_s = st.one_of(
    st.none(),
    st.fixed_dictionaries({
        "server_nct": st.booleans(), "client_nct": st.booleans(),
        "server_wbits": wbits_s, "client_wbits": wbits_s,
    }),
    st.fixed_dictionaries({
        "server_nct": st.booleans(), "client_nct": st.booleans(),
        "server_wbits": wbits_s, "client_wbits": wbits_s,
    }),
)
options_s = st.one_of(
    st.just({}),
    st.fixed_dictionaries({"compression_level": st.integers(0, 9)}),
    st.fixed_dictionaries({"compression_level": st.integers(0, 9), "mem_level": st.integers(1, 9)}),
)
case_s = st.fixed_dictionaries({
    "setup": st.sampled_from(["ref_to_server", "ref_to_client", "pair"]),
    "deflate": deflate_s,
    "options": options_s,           # Tornado side(s) compression_options when deflate is on
    "ref": st.tuples(st.integers(0, 9), st.integers(1, 9)),   # reference deflater level, mem_level
    "ops": st.lists(op_s, min_size=1, max_size=8),
    "segs": st.lists(st.integers(1, 40), max_size=6),
    "hs_segs": st.lists(st.integers(1, 90), max_size=3),
    "masks": st.lists(st.binary(min_size=4, max_size=4), min_size=1, max_size=3),
    "callback_mode": st.booleans(),
    "seed": st.binary(min_size=1, max_size=3),
    # websocket_max_message_size / max_message_size of the Tornado side(s).  When set, every rep/raw message is sized
    # limit-k with k = drawn length mod 131, i.e. legal but within a control frame's reach (125 bytes) of the limit
    "limit": st.sampled_from([None, None, None, 300, 1024, 4096]),
    # ref_to_server only: the reference client sends this (to be declined) offer instead of a usable one
    "decline": st.sampled_from([None] * (3 * len(DECLINE_OFFERS)) + DECLINE_OFFERS),
})
wbits8_case_s = st.fixed_dictionaries({
    "setup": st.sampled_from(["ref_to_server", "ref_to_client"]),
    "side": st.sampled_from(["server", "client"]),
    "nct": st.booleans(),
    "text": st.text(text_chars, max_size=20),
})


def expand(seed: bytes, n: int) -> bytes:
    out, i = bytearray(), 0
    while len(out) < n:
        out += hashlib.sha256(seed + i.to_bytes(4, "big")).digest()
        i += 1
    return bytes(out[:n])


def build_payload(spec, binary):
    """-> bytes of the message (valid UTF-8 when it is a text message), exactly the requested length."""
    if spec[0] == "lit":
        return spec[1].encode("utf-8")
    kind, n = spec[0], spec[1]
    if kind == "rep":
        unit = BASES[spec[2]]
        data = (unit * (n // len(unit) + 1))[:n]
    elif kind == "rawrep":
        unit = expand(spec[2], spec[3])
        data = (unit * (n // len(unit) + 1))[:n]
        if not binary:
            data = bytes(b & 0x7F or 0x41 for b in data)
    else:
        data = expand(spec[2], n)
        if not binary:
            # incompressible but valid text: keep 7 bits per byte
            data = bytes(b & 0x7F or 0x41 for b in data)
    if not binary:
        fixed = data.decode("utf-8", "ignore").encode("utf-8")  # drops a sequence cut at the end
        data = fixed + b"a" * (n - len(fixed))
    return data


def budget_ops(ops, limit=200 * 1024):
    """Keep the session within `limit` payload bytes: oversized later messages shrink to 300 bytes."""
    out, used = [], 0
    for op in ops:
        if op[0] in ("in", "out"):
            m = op[1]
            c = m["content"]
            n = len(c[1].encode("utf-8")) if c[0] == "lit" else c[1]
            if used + n > limit:
                m = dict(m, content=(c[0], 300) + tuple(c[2:]))
                n = 300
            used += n
            out.append((op[0], m))
        else:
            out.append(op)
    return out


def near_limit_ops(ops, limit, slack=0):
    """Resize the messages of a session with a size limit to limit-slack-k, k in 0..130 (all of them legal).
    slack: room for the few bytes by which Tornado's own compressor may make an incompressible message longer."""
    if limit is None:
        return ops
    out = []
    for op in ops:
        if op[0] in ("in", "out") and op[1]["content"][0] in ("rep", "raw"):
            c = op[1]["content"]
            out.append((op[0], dict(op[1], content=(c[0], limit - slack - c[1] % 131) + tuple(c[2:]))))
        elif op[0] in ("in", "out") and op[1]["content"][0] == "rawrep":
            c = op[1]["content"]
            out.append((op[0], dict(op[1], content=(c[0], min(c[1], limit - slack)) + tuple(c[2:]))))
        else:
            out.append(op)
    return out


class MaskSource:
    def __init__(self, masks):
        self.masks, self.i = list(masks), 0

    def next(self):
        m = self.masks[self.i % len(self.masks)]
        self.i += 1
        return bytes(m)


def encode_in_message(m, payload, deflater, masks, limit=None):
    """Frames for one generated message incl. the control frames in its gaps.
    -> (wire bytes, info dict, list of ping payloads in wire order)."""
    opcode = wsref.OP_BINARY if m["binary"] else wsref.OP_TEXT
    compressed = deflater is not None and m["compress"]
    if compressed:
        snap = deflater.snapshot()
        body = deflater.compress_message(payload, m["flush"])
        if limit is not None and len(body) > limit:
            # incompressible data grows a little under DEFLATE; a frame above the limit *as carried* is refused
            # (C15), so this legal message goes uncompressed -- and the reference compressor forgets it
            deflater.restore(snap)
            compressed, body = False, payload
    else:
        body = payload
    cuts = sorted(len(body) * c // 1000 for c in m["cuts"])
    frags = wsref.split_at(body, cuts)
    gaps = {}
    if m["every_gap"]:
        for g in range(len(frags) - 1):
            gaps.setdefault(g, []).append(("ping", b"g%d" % g))
    for g, kind, pl in m["gaps"]:
        if len(frags) > 1:
            gaps.setdefault(g % (len(frags) - 1), []).append((kind, pl))
    out, pings = bytearray(), []
    nctl = 0
    for i, frag in enumerate(frags):
        out += wsref.encode_frame(opcode if i == 0 else wsref.OP_CONT, frag, fin=(i == len(frags) - 1),
                                  rsv1=(compressed and i == 0), mask=masks.next() if masks else None)
        for kind, pl in gaps.get(i, []) if i < len(frags) - 1 else []:
            out += wsref.encode_frame(wsref.OP_PING if kind == "ping" else wsref.OP_PONG, pl,
                                      mask=masks.next() if masks else None)
            nctl += 1
            if kind == "ping":
                pings.append(pl)
    info = {"compressed": compressed, "fragments": len(frags), "controls_in_gaps": nctl,
            "empty_fragment": any(len(f) == 0 for f in frags) and len(frags) > 1, "wire_len": len(out)}
    return bytes(out), info, pings


def value_of(m, payload):
    return payload if m["binary"] else payload.decode("utf-8")


def msg_labels(labels, payload, info=None):
    n = len(payload)
    if n in LENS:
        labels.add("len_%d" % n)
    if info:
        if info["fragments"] > 1:
            labels.add("fragmented")
        if info["compressed"]:
            labels.add("compressed")
        if info["empty_fragment"]:
            labels.add("empty_fragment")
        if info["fragments"] > 1 and info["compressed"] and info["controls_in_gaps"]:
            labels.add("fragmented_compressed_with_ping")
        if info["fragments"] > 1 and not info["compressed"] and info["controls_in_gaps"]:
            labels.add("fragmented_plain_with_ping")



def compare_received(ctx, got, sent, infos, clause, detail):
    """got/sent: lists of message values; infos: per sent message the encoder info (or None).
    -> True if everything matched.  A mismatch is attributed to the first differing message."""
    if got == sent:
        return True
    i = 0
    while i < len(got) and i < len(sent) and got[i] == sent[i]:
        i += 1
    info = infos[i] if i < len(infos) else None
    d = dict(detail, index=i, n_sent=len(sent), n_got=len(got),
             sent=_short(sent[i]) if i < len(sent) else None, got=_short(got[i]) if i < len(got) else None, info=info)
    sig = clause
    if info and info.get("compressed") and info.get("fragments", 1) > 1 and info.get("controls_in_gaps"):
        sig = clause + ".control_frame_between_compressed_fragments"
    ctx.fail(clause, d, sig=sig)
    return False


def _short(v):
    if v is None:
        return None
    return {"type": type(v).__name__, "len": len(v), "head": v[:40]}


def deflate_kw(d):
    return dict(server_nct=d["server_nct"], client_nct=d["client_nct"], server_wbits=d["server_wbits"], client_wbits=d["client_wbits"])


def response_ext(d):
    """101 Sec-WebSocket-Extensions value the reference *server* sends for a generated configuration."""
    return H.offer_string(**deflate_kw(d))


# ------------------------------------------------------------------------------------------- ref <-> Tornado
def run_ref(ctx, case):
    setup = case["setup"]
    to_server = setup == "ref_to_server"
    labels = {"setup_" + setup, "dir_to_server" if to_server else "dir_to_client"}
    d = case["deflate"]
    limit = case.get("limit")
    decline = case.get("decline") if to_server else None
    ops = budget_ops(near_limit_ops(case["ops"], limit))
    out = {"nontrivial": False}
    if limit is not None:
        labels.add("limit_set")

    async def scenario():
        rec = H.Recorder()
        # ---- real handshake
        if to_server:
            app = H.make_app(rec, compression=case["options"] if (d is not None or decline) else None,
                             settings={"websocket_max_message_size": limit} if limit is not None else None)
            peer = H.RefClient(app, ext=decline or (H.offer_string(**deflate_kw(d)) if d is not None else None))
            ok = await peer.handshake(H.segments(len(peer.request), case["hs_segs"], cap=3, bulk=1 << 20))
            if not ok:
                if peer.error and peer.error.startswith("extension response invalid"):
                    # the 101 carries an extension header no conforming client can accept (invalid / unoffered parameter ...)
                    return ctx.fail("C14.handshake_extension_response_invalid",
                                    {"error": peer.error, "offer": peer.request[:300], "response_ext": peer.head.get_all("Sec-WebSocket-Extensions")})
                return ctx.fail("C14.handshake_failed", {"error": peer.error, "wire": peer.session.wire[:300]})
            if rec.handler is None:
                return ctx.fail("C14.open_not_called_after_101", {"wire": peer.session.wire[:200]})
            stream = peer.stream
            tornado_send = lambda v, b: rec.handler.write_message(v, binary=b)
            received = rec.messages
            ref_role, tor_role = "client", "server"
        else:
            kw = {"compression_options": case["options"]} if d is not None else {}
            if limit is not None:
                kw["max_message_size"] = limit
            cl = H.ClientSide(callback_mode=case["callback_mode"], **kw)
            peer = H.RefServer(cl)
            if await peer.read_request() is None:
                return ctx.fail("C14.client_sent_no_request", {})
            ext = response_ext(d) if d is not None else None
            resp_len = len(peer.response(ext=ext))
            ok = await peer.accept(ext=ext, segs=H.segments(resp_len, case["hs_segs"], cap=3, bulk=1 << 20))
            if not ok:
                return ctx.fail("C14.handshake_failed", {"exc": repr(cl.connect_future.exception()) if cl.connect_future.done() else "pending"})
            conn = cl.connect_future.result()
            stream = cl.stream
            tornado_send = lambda v, b: conn.write_message(v, binary=b)
            received = cl.messages
            ref_role, tor_role = "server", "client"
        dp = peer.deflate
        out["deflate"] = dp.as_dict() if dp else None
        if decline:
            labels.add("declined_offer" if dp is None else "declined_then_accepted_offer")
        elif d is not None and dp is None:
            return ctx.fail("C14.deflate_not_negotiated", {"offer/response": deflate_kw(d)})
        if dp is not None:
            if dp.server_nct or dp.client_nct:
                labels.add("no_context_takeover")
            if dp.server_wbits < 15 or dp.client_wbits < 15:
                labels.add("wbits<15")
            labels.add("deflate_on")
        else:
            labels.add("deflate_off")
        try:
            deflater = dp.deflater(ref_role, level=case["ref"][0], mem_level=case["ref"][1]) if dp else None
        except wsref.RefError as e:
            # e.g. an agreed window of 8 bits, which no zlib-based endpoint can produce: nothing the offer asked for
            return ctx.fail("C14.handshake_extension_response_invalid", {"error": str(e), "agreed": dp.as_dict()})
        masks = MaskSource(case["masks"]) if ref_role == "client" else None

        sent_in, infos_in, sent_out, pings = [], [], [], []
        for op in ops:
            if op[0] == "in":
                m = op[1]
                payload = build_payload(m["content"], m["binary"])
                data, info, pg = encode_in_message(m, payload, deflater, masks, limit)
                segs = H.segments(len(data), case["segs"])
                msg_labels(labels, payload, info)
                if limit is not None and info["controls_in_gaps"] and not info["compressed"] and len(payload) + 125 > limit:
                    labels.add("control_frame_between_fragments_near_limit")
                if (len(payload) >= 126 or info["fragments"] > 1 or info["compressed"]) and len(segs) >= 2:
                    out["nontrivial"] = True
                sent_in.append(value_of(m, payload))
                infos_in.append(dict(info, segments=len(segs)))
                pings.extend(pg)
                await peer.send(data, segs)
                if not compare_received(ctx, received(), sent_in, infos_in, "C14.messages_received",
                                        {"setup": setup, "deflate": out["deflate"]}):
                    out["stop"] = True
                    break
            elif op[0] == "ping_in":
                pl = op[1]
                pings.append(pl)
                await peer.send(wsref.encode_frame(wsref.OP_PING, pl, mask=masks.next() if masks else None))
            elif op[0] == "out":
                m = op[1]
                payload = build_payload(m["content"], m["binary"])
                msg_labels(labels, payload)
                labels.add("tornado_sends")
                sent_out.append(value_of(m, payload))
                tornado_send(sent_out[-1], m["binary"])
                await peer.settle()
                dec = peer.decoder
                if dec.error:
                    sig = "C14.tornado_frames_undecodable"
                    if dec.error == "inflate_error" and tor_role == "client" and dp and dp.client_nct and len(sent_out) >= 2:
                        sig += ".client_no_context_takeover"
                    ctx.fail("C14.tornado_frames_undecodable",
                             {"setup": setup, "deflate": out["deflate"], "verdict": dec.error, "message_index": len(sent_out) - 1,
                              "frames": [f.brief() for f in dec.frames[-3:]]}, sig=sig)
                    out["stop"] = True
                    break
            # "deliver" is a pair-only operation
        if out.get("stop"):
            H.teardown(stream)
            await vtime.settle(pump=stream.pump_once)
            return
        dec = peer.decoder
        got_out = [e[1] for e in dec.messages()]
        if dec.leftover:
            ctx.fail("C14.tornado_partial_frame", {"leftover": dec.leftover})
        if got_out != sent_out:
            ctx.fail("C14.tornado_sent_messages", {"setup": setup, "deflate": out["deflate"], "n_sent": len(sent_out), "n_decoded": len(got_out),
                                                   "first_frames": [f.brief() for f in dec.frames[:4]]})
        pongs = [e[1] for e in dec.events if e[0] == "pong"]
        if pongs != pings:
            ctx.fail("C14.pongs", {"pings": pings, "pongs": pongs})
        if pings:
            labels.add("ping_answered")
        other = [e for e in dec.events if e[0] in ("ping", "close")]
        if other:
            ctx.fail("C14.unexpected_control_frame_from_tornado", {"events": other[:3]})
        # Tornado marks every data frame it sends as compressed iff deflate was negotiated; either is legal.
        if stream.closed():
            ctx.fail("C14.connection_closed", {"setup": setup})
        H.teardown(stream)
        await vtime.settle(pump=stream.pump_once)

    with LogCapture() as logs, det_urandom(b"c14" + case["seed"]):
        vtime.run(scenario)
    errs = [r for r in logs.records if r[1] >= 40]
    if errs and not out.get("stop"):
        ctx.fail("C14.error_logged", {"logs": errs[:2]})
    ctx.note(case, labels, out["nontrivial"])


# ------------------------------------------------------------------------------------------- Tornado <-> Tornado
def run_pair(ctx, case):
    labels = {"setup_pair", "dir_to_server", "dir_to_client"}
    d = case["deflate"]
    limit = case.get("limit")
    # with deflate the *sending* Tornado may expand an incompressible message by a few bytes (stored blocks), and the
    # receiving Tornado measures the frame as carried (DEFLATE with mem_level 1 / level 0 adds up to a few per cent):
    # stay limit/8 (at least 64 bytes) clear of the limit
    ops = budget_ops(near_limit_ops(case["ops"], limit, slack=max(64, (limit or 0) // 8) if d is not None else 0))
    out = {"nontrivial": False}
    if limit is not None:
        labels.add("limit_set")

    async def scenario():
        rec = H.Recorder()
        app = H.make_app(rec, compression=case["options"] if d is not None else None,
                         settings={"websocket_max_message_size": limit} if limit is not None else None)
        kw = {"compression_options": case["options"]} if d is not None else {}
        if limit is not None:
            kw["max_message_size"] = limit
        pair = H.Pair(app, client_kw=kw, callback_mode=case["callback_mode"])
        if not await pair.connect():
            return ctx.fail("C14.client_sent_no_request", {})
        f = pair.client.connect_future
        if not (f.done() and f.exception() is None) or rec.handler is None:
            return ctx.fail("C14.handshake_failed", {"future": repr(f)})
        conn = f.result()
        labels.add("deflate_on" if d is not None else "deflate_off")
        c2s, s2c, pings_c, pings_s = [], [], [], []
        manual = False
        for op in ops:
            if op[0] in ("in", "out"):
                m = op[1]
                payload = build_payload(m["content"], m["binary"])
                msg_labels(labels, payload)
                v = value_of(m, payload)
                if op[0] == "in":
                    c2s.append(v)
                    conn.write_message(v, binary=m["binary"])
                else:
                    s2c.append(v)
                    rec.handler.write_message(v, binary=m["binary"])
                if len(payload) >= 126 or d is not None:
                    out["big"] = True
                await pair.settle(auto=False)
                manual = True
            elif op[0] == "ping_in":
                conn.ping(op[1])
                pings_c.append(op[1])
                await pair.settle(auto=False)
            elif op[0] == "deliver":
                moved = pair.wire.deliver(to_b=op[1], n=op[2])
                if moved:
                    out["partial"] = out.get("partial", 0) + 1
                    labels.add("partial_delivery")
                await pair.settle(auto=False)
        await pair.settle(auto=True)
        out["nontrivial"] = bool(out.get("big")) and out.get("partial", 0) >= 1
        detail = {"deflate": d is not None, "options": case["options"]}
        compare_received(ctx, rec.messages(), c2s, [None] * len(c2s), "C14.pair_server_received", detail)
        compare_received(ctx, pair.client.messages(), s2c, [None] * len(s2c), "C14.pair_client_received", detail)
        # strict decode of everything both sides wrote
        ch, cf, sh, sf = pair.split_logs()
        if ch is None or sh is None:
            return ctx.fail("C14.handshake_failed", {"error": "handshake bytes on the wire are not HTTP heads"})
        try:
            dp = H.negotiated_deflate(sh)
        except wsref.RefError as e:
            return ctx.fail("C14.handshake_extension_response_invalid", {"error": str(e), "response_ext": sh.get_all("Sec-WebSocket-Extensions")})
        if (dp is not None) != (d is not None):
            ctx.fail("C14.deflate_not_negotiated", {"response_ext": sh.get_all("Sec-WebSocket-Extensions")})
        dc = wsref.decode_all(cf, expect_masked=True, inflater=dp.inflater("client") if dp else None)
        ds = wsref.decode_all(sf, expect_masked=False, inflater=dp.inflater("server") if dp else None)
        for name, dec, sent in (("client", dc, c2s), ("server", ds, s2c)):
            if dec.error or dec.leftover:
                ctx.fail("C14.tornado_frames_undecodable", {"side": name, "verdict": dec.error, "leftover": dec.leftover,
                                                            "frames": [f.brief() for f in dec.frames[-3:]]})
            if [e[1] for e in dec.messages()] != sent:
                ctx.fail("C14.tornado_sent_messages", {"side": name, "n_sent": len(sent), "n_decoded": len(dec.messages())})
        if [e[1] for e in ds.events if e[0] == "pong"] != pings_c or [e[1] for e in dc.events if e[0] == "ping"] != pings_c:
            ctx.fail("C14.pongs", {"pings": pings_c, "server_events": [e for e in ds.events if e[0] != "text"][:4]})
        if [e[1] for e in rec.events if e[0] == "ping"] != pings_c:
            ctx.fail("C14.on_ping_payloads", {"pings": pings_c})
        if pings_c:
            labels.add("ping_answered")
        if pair.session.closed or pair.client.stream.closed():
            ctx.fail("C14.connection_closed", {"setup": "pair"})
        H.teardown(pair.client.stream, pair.session.stream)
        await pair.settle()

    with LogCapture() as logs, det_urandom(b"c14" + case["seed"]):
        vtime.run(scenario)
    errs = [r for r in logs.records if r[1] >= 40]
    if errs:
        ctx.fail("C14.error_logged", {"logs": errs[:2]})
    ctx.note(case, labels, out["nontrivial"])


def run_case(ctx, case):
    if case["setup"] == "pair":
        return run_pair(ctx, case)
    return run_ref(ctx, case)


# ------------------------------------------------------------------------------------------- window bits 8 (EITHER)
def run_wbits8(ctx, case):
    """zlib cannot produce a raw deflate stream with a 256-byte window, so `*_max_window_bits=8` is an
    EITHER class: the handshake must settle (101+extension, 101 without, or a clean failure); when it
    succeeds an uncompressed text message must still arrive."""
    labels = {"wbits8_either", "wbits8_" + case["setup"]}
    out = {}
    kwd = dict(server_nct=case["nct"], client_nct=case["nct"], server_wbits=8 if case["side"] == "server" else None,
               client_wbits=8 if case["side"] == "client" else None)

    async def scenario():
        rec = H.Recorder()
        if case["setup"] == "ref_to_server":
            peer = H.RefClient(H.make_app(rec, compression={}), ext=H.offer_string(**kwd))
            ok = await peer.handshake()
            out["ok"] = ok
            if ok:
                await peer.send(wsref.encode_frame(wsref.OP_TEXT, case["text"].encode(), mask=b"\x01\x02\x03\x04"))
                out["got"] = rec.messages()
            elif not peer.session.closed and peer.head is None:
                ctx.fail("C14.wbits8_no_answer", {"wire": peer.session.wire[:200]})
            H.teardown(peer.stream)
            await vtime.settle(pump=peer.stream.pump_once)
        else:
            cl = H.ClientSide(callback_mode=True, compression_options={})
            peer = H.RefServer(cl)
            await peer.read_request()
            ok = await peer.accept(ext=H.offer_string(**kwd))
            if not cl.connect_future.done():
                ctx.fail("C14.wbits8_connect_pending", {})
            out["ok"] = ok
            if ok:
                await peer.send(wsref.encode_frame(wsref.OP_TEXT, case["text"].encode()))
                out["got"] = cl.messages()
            H.teardown(cl.stream)
            await vtime.settle(pump=cl.stream.pump_once)

    with LogCapture(), det_urandom(b"c14w"):
        vtime.run(scenario)
    labels.add("wbits8_accepted" if out.get("ok") else "wbits8_refused")
    if out.get("ok") and out.get("got") != [case["text"]]:
        ctx.fail("C14.wbits8_plain_message", {"got": out.get("got"), "sent": case["text"]})
    ctx.note(case, labels, False)


def deflate_grid():
    """Deterministic: both reference-peer set-ups x every combination of server/client max_window_bits in
    {absent, 9, 12, 15} x server/client no_context_takeover in {absent, present} (64, most of them ASYMMETRIC --
    Tornado's own client can only negotiate symmetric ones), with messages that back-reference far: an
    incompressible 1100-byte block repeated to 3000 bytes (matches at distance 1100 > the 512-byte window of
    wbits 9), the same message again (matches into the previous message: context takeover), one 8 KiB message
    made of a repeated 2500-byte block; the same contents are also written by Tornado and decoded by the
    reference inflater under the agreed window / takeover rules."""
    def msg(content, binary, cuts=()):
        return {"binary": binary, "content": content, "cuts": list(cuts), "gaps": [], "every_gap": False, "compress": True, "flush": "sync"}
    a = ("rawrep", 3000, b"\x01", 1100)
    b = ("rawrep", 8192, b"\x02", 2500)
    ops = [("in", msg(a, True)), ("ping_in", b"after a compressed message"), ("out", msg(a, False)), ("in", msg(a, True, [400])),
           ("ping_in", b"q" * 125), ("out", msg(a, False)), ("in", msg(b, False)), ("ping_in", b""), ("out", msg(b, True))]
    for setup in ("ref_to_server", "ref_to_client"):
        for sw in (None, 9, 12, 15):
            for cw in (None, 9, 12, 15):
                for snct in (False, True):
                    for cnct in (False, True):
                        yield {"setup": setup, "deflate": {"server_nct": snct, "client_nct": cnct, "server_wbits": sw, "client_wbits": cw},
                               "options": {}, "ref": (6, 8), "ops": ops, "segs": [7, 300], "hs_segs": [], "masks": [b"\x21\x43\x65\x87"],
                               "callback_mode": (cw or 0) % 2 == 0, "seed": b"g"}


def limit_grid():
    """Deterministic: a non-default max_message_size (256 / 1024) and legal messages of limit-k bytes, k in
    {0,1,60,123,124,125,130}, fragmented so that (almost) everything is buffered when a ping or pong with a 1- or
    125-byte payload arrives between the fragments; then a small message and a stand-alone ping.  Everything is legal:
    all messages must arrive, the pings must be answered, the connection must stay open."""
    def msg(k, cuts, gaps):
        return {"binary": k % 2 == 0, "content": ("rep", k, 1), "cuts": cuts, "gaps": gaps, "every_gap": False, "compress": False, "flush": "sync"}
    small = {"binary": False, "content": ("lit", "after"), "cuts": [], "gaps": [], "every_gap": False, "compress": False, "flush": "sync"}
    for setup in ("ref_to_server", "ref_to_client"):
        for limit in (256, 1024):
            for k in (0, 1, 60, 123, 124, 125, 130):
                for kind in ("ping", "pong"):
                    for plen in (1, 125):
                        for cuts in ([1000], [995], [500, 999]):
                            gaps = [(len(cuts) - 1, kind, b"c" * plen)]
                            yield {"setup": setup, "deflate": None, "options": {}, "ref": (6, 8), "limit": limit,
                                   "ops": [("in", msg(k, cuts, gaps)), ("in", small), ("ping_in", b"q" * plen)],
                                   "segs": [9, 200], "hs_segs": [], "masks": [b"\x0f\x1e\x2d\x3c"], "callback_mode": k % 2 == 1, "seed": b"l"}


def decline_grid():
    """Deterministic: every to-be-declined offer against a server with compression enabled (two option sets), then an
    ordinary exchange in both directions judged by the reference peer under whatever the 101 response agreed."""
    def msg(content, binary):
        return {"binary": binary, "content": content, "cuts": [], "gaps": [], "every_gap": False, "compress": True, "flush": "sync"}
    ops = [("out", msg(("rep", 200, 0), False)), ("in", msg(("rep", 300, 1), False)), ("out", msg(("rep", 3000, 4), True)),
           ("ping_in", b"dg"), ("out", msg(("lit", "héllo ✓"), False)), ("in", msg(("rep", 126, 0), True))]
    for offer in DECLINE_OFFERS:
        for options in ({}, {"compression_level": 9, "mem_level": 9}):
            yield {"setup": "ref_to_server", "deflate": None, "options": options, "ref": (6, 8), "limit": None, "decline": offer, "ops": ops,
                   "segs": [11], "hs_segs": [], "masks": [b"\x5a\x5a\xa5\xa5"], "callback_mode": True, "seed": b"d"}


PARTS = {"main": run_case, "wbits8": run_wbits8, "deflate_grid": run_case, "limit_grid": run_case, "decline_grid": run_case}


def main(ctx):
    ctx.run_replays(PARTS)
    ctx.enumerate(deflate_grid(), run_case, name="deflate_grid")
    ctx.enumerate(limit_grid(), run_case, name="limit_grid")
    ctx.enumerate(decline_grid(), run_case, name="decline_grid")
    ctx.explore(case_s, run_case, ctx.n(1000, 20000), name="main")
    ctx.explore(wbits8_case_s, run_wbits8, ctx.n(16, 200), name="wbits8")
