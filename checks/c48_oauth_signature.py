"""C48 — OAuth request signatures match the OAuth 1.0 specification (RFC 5849 section 3.4).

Real code: tornado.auth._oauth_signature (OAuth 1.0) and _oauth10a_signature (1.0a), called the way Tornado's
own mixins call them: consumer_token dict, method, URL without query, parameters dict, optional token dict.

Oracle: an independent RFC 5849 implementation written here (own percent-encoder over UTF-8 bytes with the
unreserved set ALPHA / DIGIT / - . _ ~ and upper-case hex, section 3.6; parameter normalisation 3.4.1.3.2:
encode names and values, sort by encoded name then encoded value, name=value joined by '&'; base string URI
3.4.1.2 built from the *generated URL parts* (no URL parser involved): lower-cased scheme and host, port kept
only when it is not the scheme's default, path as given; base string 3.4.1.1; key 3.4.2 = enc(consumer
secret) & enc(token secret); HMAC-SHA1; base64).  Clause: Tornado's bytes == the reference, for both functions.

EITHER class: an empty path (`http://host`) -- RFC 5849 derives the path from the HTTP request line, which
cannot be empty, while the statement only says "normalized URL"; both `http://host` and `http://host/` are
accepted as the base string URI.

When the result differs from the RFC the check computes what the reference gives with the *known deviations*
switched on for a subset of the features present in the input (smallest subset first, so a partly repaired
tree is attributed correctly); only if that reproduces Tornado's bytes is the failure attributed (one ctx.fail
per deviation in that subset, each with its own narrow sig):
  C48.signature_mismatch.param_name_not_encoded   a parameter name contains a character outside the unreserved set
  C48.signature_mismatch.default_port_kept        the URL spells out :80 on http or :443 on https
  C48.signature_mismatch.oauth10_key_not_encoded  _oauth_signature (1.0) and a secret contains a non-unreserved character
  C48.signature_mismatch.path_semicolon_dropped   the last path segment contains ';' (urlparse splits it off as "params")
  C48.signature_mismatch.userinfo_kept            the URL carries userinfo (`user:pw@host`), which Tornado keeps (lower-cased)
The first four are repaired in the tree (their entries are `fixed`), userinfo_kept is open.

URL shapes: besides scheme/host/port/path the request URL may carry a query string (built from a subset of the
very parameters that are also passed in `parameters`, as Tornado documents: "parameters should include all POST
arguments and query string arguments"), an empty `?`, a fragment, a trailing `#`, path parameters (`;v=1`) and
userinfo.  The reference never looks at the URL text: base string URI = scheme://host[:port]path built from the
generated parts, so query, fragment and userinfo must not influence the signature.
Any other difference -- including one of these features combined with anything else that is wrong -- fails with
the generic sig C48.signature_mismatch and is a VIOLATION.

Sensitivity (quick tier, seed 1, scratch copy of /repo/tornado):
  M1 _oauth_escape safe="~" -> safe="~/"                                   caught  C48.signature_mismatch (every URL has '/')
  M2 `sorted(...)` removed in both functions                               caught  ({"a": "", "Z": "a"})
  M3 `method.upper()` dropped in both functions                            caught  (method "get")
  M4 1.0a key: token secret replaced by ""                                 caught
  M5 1.0a key: consumer secret no longer percent-encoded                   caught  (secret "&"; the 1.0-only sig does not cover 1.0a)
  M6 `netloc.lower()` dropped in both functions                            caught  (host EXAMPLE.COM)
  M7 1.0 base string elements quoted with safe="~+"                        caught  (path "/a+b")
  M8 1.0 key: no '&' when there is no token                                caught
  M9 base string URI built with `parts._replace(netloc=..., fragment="").geturl()` (keeps the URL's query; found by
     independent mutation testing, previously missed: no generated URL had a query)   caught at every seed by the finite
     "grid" part (first case whose URL carries `?a=b&c=d%20e`) -> C48.signature_mismatch, and by the Hypothesis part
     (query_mode all/some/plus/empty, fragments, trailing '#').
  M10 HMAC object memoised per key with lru_cache and updated in place, so it accumulates the base strings of earlier
     signatures (round-9 "state carried over" mutant)   caught at seeds 1,2,3: by the committed replays (second replay
     with the same key), the grid (one key pair for 2700 requests) and the "sequence" part (2-4 different requests,
     both functions, signed with one key pair, first request repeated at the end) -> C48.signature_mismatch.
  A mutant is also reported when the input carries one of the four known-deviation features, because the
  bytes are then no longer reproduced by "RFC + exactly those deviations" (seen with M1, M2, M4 on the replays).
  Combined repair proposed in findings_inbox/C48-rfc5849-deviations.md: 3006/3006 cases match the RFC, 0 exclusions.
"""
import base64
import hashlib
import hmac
import itertools

from hypothesis import strategies as st

from tornado import auth

PROPERTY = "C48"
READY = True
RULE = (
    "finite grid (2 functions x 3 scheme/port x 5 paths x 5 query shapes x 3 fragment shapes x userinfo x 3 parameter sets) + "
    "Hypothesis: fn in {1.0, 1.0a} x consumer/token secret (absent token too) x method in any case x URL parts "
    "(mixed-case http/https, mixed-case host pool incl. IPv6 literal, port none/default/non-default, path of "
    "unreserved, %XX, '~', sub-delims, empty; optional query string repeating the parameters, empty '?', fragment, '#', userinfo) x 0-8 parameters whose names and values are drawn from unreserved, "
    "reserved (& = + / % ~ space ...) and non-ASCII fragments, values also ints.  non-trivial = a secret, name or "
    "value contains a reserved or non-ASCII character, or the URL has upper-case letters or an explicit port; "
    "distinct = SHA-1 of the case"
)
ASSUMPTIONS = [
    "the reference implementation of RFC 5849 sections 3.4.1-3.4.2 and 3.6 written in this module is correct "
    "(it reproduces the RFC's own worked example, checked on every run)",
    "when the URL carries a query string, the same arguments are also passed in `parameters` (Tornado's documented calling convention); the URL query itself is never part of the base string URI",
    "parameter values are str or int; parameter names are str; 'oauth_signature' itself is never a parameter",
]
TECHNIQUE = "property-based testing (Hypothesis) against an independent reference implementation of RFC 5849 section 3.4"
LEVEL_TEXT = (
    "bounded exploration: 3000 generated requests in the quick tier, 300k in the thorough tier, <=8 parameters, "
    "fragments <=~12 characters; equality with an independently written reference, not a proof"
)
SHARDS = 16

SIG_GENERIC = "C48.signature_mismatch"
SIG_NAME = "C48.signature_mismatch.param_name_not_encoded"
SIG_PORT = "C48.signature_mismatch.default_port_kept"
SIG_KEY10 = "C48.signature_mismatch.oauth10_key_not_encoded"
SIG_SEMI = "C48.signature_mismatch.path_semicolon_dropped"
SIG_USERINFO = "C48.signature_mismatch.userinfo_kept"

UNRESERVED = frozenset(b"ABCDEFGHIJKLMNOPQRSTUVWXYZabcdefghijklmnopqrstuvwxyz0123456789-._~")


# ------------------------------------------------------------------------------- RFC 5849 reference
def enc(text):
    """RFC 5849 section 3.6."""
    out = []
    for b in text.encode("utf-8"):
        if b in UNRESERVED:
            out.append(chr(b))
        else:
            out.append("%%%02X" % b)
    return "".join(out)


def needs_encoding(text):
    return any(b not in UNRESERVED for b in text.encode("utf-8"))


def reference(case, deviations=frozenset(), slash_for_empty_path=False):
    scheme = case["scheme"].lower()
    host = case["host"].lower()
    port = case["port"]
    default = {"http": 80, "https": 443}[scheme]
    path = case["path"]
    if "semi" in deviations:
        last = path.rfind("/")
        semi = path.find(";", last if last >= 0 else 0)
        if semi >= 0:
            path = path[:semi]
    if not path and slash_for_empty_path:
        path = "/"
    authority = host
    if port is not None and (port != default or "port" in deviations):
        authority += ":%d" % port
    if "userinfo" in deviations and case.get("userinfo") is not None:
        authority = case["userinfo"].lower() + "@" + authority
    uri = scheme + "://" + authority + path
    pairs = [(n, str(v)) for n, v in case["params"]]
    if "name" in deviations:
        norm = "&".join("%s=%s" % (n, enc(v)) for n, v in sorted(pairs))
    else:
        encoded = sorted((enc(n).encode("ascii"), enc(v).encode("ascii")) for n, v in pairs)
        norm = "&".join("%s=%s" % (n.decode(), v.decode()) for n, v in encoded)
    base_string = "&".join([enc(case["method"].upper()), enc(uri), enc(norm)])
    cs = case["consumer_secret"]
    ts = case["token_secret"] if case["token_secret"] is not None else ""
    if "key10" in deviations:
        key = cs.encode("utf-8") + b"&" + ts.encode("utf-8")
    else:
        key = (enc(cs) + "&" + enc(ts)).encode("ascii")
    digest = hmac.new(key, base_string.encode("ascii"), hashlib.sha1).digest()
    return base64.b64encode(digest)


def _rfc_self_test():
    """The worked example of RFC 5849 sections 1.2 / 3.4.1: base string and the 3.6 encoder."""
    assert enc("r b") == "r%20b" and enc("a=b&c~d/\xe9") == "a%3Db%26c~d%2F%C3%A9"
    params = [("b5", "=%3D"), ("a3", "a"), ("c@", ""), ("a2", "r b"), ("oauth_consumer_key", "9djdj82h48djs9d2"),
              ("oauth_token", "kkk9d7dh3k39sjv7"), ("oauth_signature_method", "HMAC-SHA1"),
              ("oauth_timestamp", "137131201"), ("oauth_nonce", "7d8f3e4a"), ("c2", ""), ("a3", "2 q")]
    encoded = sorted((enc(n).encode(), enc(v).encode()) for n, v in params)
    norm = "&".join("%s=%s" % (n.decode(), v.decode()) for n, v in encoded)
    assert norm == ("a2=r%20b&a3=2%20q&a3=a&b5=%3D%253D&c%40=&c2=&oauth_consumer_key=9djdj82h48djs9d2&oauth_nonce=7d8f3e4a&"
                    "oauth_signature_method=HMAC-SHA1&oauth_timestamp=137131201&oauth_token=kkk9d7dh3k39sjv7"), norm
    # section 3.4.1.2: GET http://EXAMPLE.COM:80/r%20v/X -> http://example.com/r%20v/X
    case = {"scheme": "HTTP", "host": "EXAMPLE.COM", "port": 80, "path": "/r%20v/X", "params": [], "method": "get",
            "consumer_secret": "", "token_secret": None}
    want = base64.b64encode(hmac.new(b"&", b"GET&http%3A%2F%2Fexample.com%2Fr%2520v%2FX&", hashlib.sha1).digest())
    assert reference(case) == want


_rfc_self_test()

# ------------------------------------------------------------------------------------- strategies
UNRES_FRAG = ["a", "b", "Z", "0", "9", "-", ".", "_", "~", "oauth_token", "status", "x1", "abc", "A.b-c_d~e"]
RES_FRAG = ["&", "=", "+", "/", "%", " ", "%20", "%3D", "?", "#", ":", "@", "!", "*", "'", "(", ")", ",", ";", "[", "]", "\"", "<",
            "\n", "\x00", "a b", "a&b=c", "100%"]
NONASCII_FRAG = ["\xe9", "\u4e2d", "\U0001F600", "\xfc", "\x80", "\uffff", "\xf1"]


def mixed_text(max_frags, weights=(4, 2, 1)):
    pool = st.one_of(*([st.sampled_from(UNRES_FRAG)] * weights[0] + [st.sampled_from(RES_FRAG)] * weights[1]
                       + [st.sampled_from(NONASCII_FRAG)] * weights[2]))
    return st.lists(pool, max_size=max_frags).map("".join)


plain_text = st.lists(st.sampled_from(UNRES_FRAG), min_size=1, max_size=4).map("".join)
mixed_name = mixed_text(3).filter(lambda s: s != "" and s != "oauth_signature")
value_s = st.one_of(plain_text, mixed_text(4), mixed_text(4), st.integers(-5, 10**12), st.just(""))
secret_s = st.one_of(plain_text, plain_text, mixed_text(4), st.just(""))
# three quarters of the cases have only unreserved parameter names (so the rest of the algorithm is what is
# being compared); one quarter mixes in names that need encoding
params_plain = st.lists(st.tuples(plain_text, value_s), max_size=8, unique_by=lambda nv: nv[0])
params_mixed = st.lists(st.tuples(st.one_of(plain_text, mixed_name), value_s), max_size=8, unique_by=lambda nv: nv[0])
params_s = st.one_of(params_plain, params_plain, params_plain, params_mixed)

SCHEMES = ["http", "https", "http", "https", "HTTP", "Https", "hTTpS", "HTTPS"]
HOSTS = ["example.com", "EXAMPLE.COM", "Api.Twitter.Com", "localhost", "127.0.0.1", "[2001:DB8::1]", "a.b-c.d", "X"]
PORTS = [None, None, None, 80, 443, 8080, 8443, 1, 65535]
PATH_SEG = ["a", "b", "photos", "1.1", "statuses", "update.json", "~user", "%20", "%2F", "%7E", "%e9", "-", "_", "r%20v", "X",
            "", "a,b", "a=b", "a+b", "a:b", "a@b", "a!b", "$", "a&b", "(x)", "*", "'"]
PATH_SEG_SEMI = ["a;b", ";", "x;y=1", "a;"]
seg_s = st.sampled_from(PATH_SEG)
path_plain = st.lists(seg_s, min_size=1, max_size=4).map(lambda segs: "/" + "/".join(segs))
path_semi = st.builds(lambda p, last: p + "/" + last, st.one_of(st.just(""), path_plain), st.sampled_from(PATH_SEG_SEMI))
path_semi_inner = st.builds(lambda semi, p: "/" + semi + p, st.sampled_from(PATH_SEG_SEMI), path_plain)  # ';' not in the last segment
path_s = st.one_of(*([path_plain] * 10 + [st.just("/"), st.just("/"), st.just(""), path_semi, path_semi_inner]))
METHODS = ["GET", "POST", "get", "post", "Put", "delete", "PATCH", "head", "oPtIoNs"]

QUERY_MODES = [None, None, None, None, "all", "all", "some", "plus", "empty"]
FRAGMENTS = [None, None, None, None, None, None, "", "frag", "a=b&c=d", "/x?y=1"]
USERINFOS = [None] * 11 + ["user", "User:Pw"]


def build_url(case):
    """The request URL text handed to Tornado (the reference never sees it)."""
    url = case["scheme"] + "://"
    if case.get("userinfo") is not None:
        url += case["userinfo"] + "@"
    url += case["host"] + (":%d" % case["port"] if case["port"] is not None else "") + case["path"]
    mode = case.get("query_mode")
    if mode is not None:
        pairs = [(n, str(v)) for n, v in case["params"]]
        if mode == "some":
            pairs = pairs[::2]
        if mode == "empty":
            pairs = []
        if mode == "plus":
            q = "&".join("%s=%s" % (enc(n).replace("%20", "+"), enc(v).replace("%20", "+")) for n, v in pairs)
        else:
            q = "&".join("%s=%s" % (enc(n), enc(v)) for n, v in pairs)
        url += "?" + q
    if case.get("fragment") is not None:
        url += "#" + case["fragment"]
    return url


case_s = st.fixed_dictionaries({
    "query_mode": st.sampled_from(QUERY_MODES),
    "fragment": st.sampled_from(FRAGMENTS),
    "userinfo": st.sampled_from(USERINFOS),
    "fn": st.sampled_from(["1.0", "1.0a"]),
    "consumer_secret": secret_s,
    "token_secret": st.one_of(st.none(), secret_s, secret_s),
    "method": st.sampled_from(METHODS),
    "scheme": st.sampled_from(SCHEMES),
    "host": st.sampled_from(HOSTS),
    "port": st.sampled_from(PORTS),
    "path": path_s,
    "params": params_s,
})


def run_case(ctx, case):
    fn = auth._oauth_signature if case["fn"] == "1.0" else auth._oauth10a_signature
    url = build_url(case)
    consumer = {"key": "consumer-key", "secret": case["consumer_secret"]}
    token = None if case["token_secret"] is None else {"key": "token-key", "secret": case["token_secret"]}
    params = {n: v for n, v in case["params"]}
    got = fn(consumer, case["method"], url, params, token)
    labels = {"fn_" + case["fn"]}

    # ---- input features
    scheme = case["scheme"].lower()
    secrets = [case["consumer_secret"], case["token_secret"] or ""]
    names = [n for n, _ in case["params"]]
    values = [str(v) for _, v in case["params"]]
    f_name = any(needs_encoding(n) for n in names)
    f_port = case["port"] is not None and case["port"] == {"http": 80, "https": 443}[scheme]
    f_secret = any(needs_encoding(s) for s in secrets)
    last = case["path"].rfind("/")
    f_semi = ";" in case["path"][max(last, 0):]
    if f_name:
        labels.add("reserved_in_name")
        if any(any(ord(c) > 127 for c in n) for n in names):
            labels.add("non_ascii_name")
    if f_port:
        labels.add("default_port")
    if f_secret:
        labels.add("reserved_in_secret_v10" if case["fn"] == "1.0" else "reserved_in_secret_v10a")
    f_userinfo = case.get("userinfo") is not None
    if f_userinfo:
        labels.add("url_has_userinfo")
    if case.get("query_mode") is not None:
        labels.add("url_has_query" if "?" + "#" not in url + "#" and not url.split("#")[0].endswith("?") else "url_has_empty_query")
    if case.get("fragment") is not None:
        labels.add("url_has_fragment" if case["fragment"] else "url_trailing_hash")
    if f_semi:
        labels.add("semicolon_in_last_path_segment")
    elif ";" in case["path"]:
        labels.add("semicolon_in_inner_path_segment")
    if any(any(ord(c) > 127 for c in v) for v in values):
        labels.add("non_ascii_value")
    if any(needs_encoding(v) for v in values):
        labels.add("reserved_in_value")
    if any(isinstance(v, int) for _, v in case["params"]):
        labels.add("int_value")
    if case["port"] is not None and not f_port:
        labels.add("non_default_port")
    if case["token_secret"] is None:
        labels.add("no_token")
    if len(names) >= 2:
        labels.add("multi_param")
    if case["path"] == "":
        labels.add("empty_path")
    upper_url = any(c.isupper() for c in case["scheme"] + case["host"])
    if upper_url:
        labels.add("uppercase_scheme_or_host")
    if case["method"] != case["method"].upper():
        labels.add("lowercase_method")
    nontrivial = f_name or f_secret or any(needs_encoding(v) for v in values) or upper_url or case["port"] is not None

    detail = {"case": case, "url": url, "got": got}
    if not isinstance(got, bytes):
        ctx.fail("C48.returns_bytes", detail)

    def refs(dev):
        out = {reference(case, dev)}
        if case["path"] == "":
            out.add(reference(case, dev, slash_for_empty_path=True))  # EITHER: empty path
        return out

    if got in refs(frozenset()):
        labels.add("matches_rfc")
        ctx.note(case, labels, nontrivial)
        return
    # ---- mismatch: is it exactly the known deviations for the features present?
    present = set()
    if f_name:
        present.add("name")
    if f_port:
        present.add("port")
    if f_secret and case["fn"] == "1.0":
        present.add("key10")
    if f_semi:
        present.add("semi")
    if f_userinfo:
        present.add("userinfo")
    want = sorted(refs(frozenset()))[0]
    detail["rfc5849"] = want
    # the smallest set of known deviations (among those whose trigger is present) that reproduces the bytes;
    # after a partial repair of Tornado only the unrepaired ones are needed
    order = ("name", "port", "key10", "semi", "userinfo")
    cands = [d for d in order if d in present]
    explaining = None
    for size in range(1, len(cands) + 1):
        for combo in itertools.combinations(cands, size):
            if got in refs(frozenset(combo)):
                explaining = combo
                break
        if explaining:
            break
    if explaining:
        sigs = {"name": SIG_NAME, "port": SIG_PORT, "key10": SIG_KEY10, "semi": SIG_SEMI, "userinfo": SIG_USERINFO}
        for dev in explaining:
            labels.add("deviates_" + dev)
            ctx.fail("C48.signature_mismatch", dict(detail, root_cause=dev, explained_by=list(explaining)), sig=sigs[dev])
        ctx.note(case, labels, nontrivial)
        return
    ctx.fail("C48.signature_mismatch", dict(detail, features=sorted(present)), sig=SIG_GENERIC)
    ctx.note(case, labels, nontrivial)


# ------------------------------------------------------------------------------------ finite grid
GRID_PARAMS = [[], [("a", "b"), ("c", "d e")], [("oauth_nonce", "n1"), ("status", "Hello Ladies + Gentlemen, a signed OAuth request!"),
                                                   ("ids[]", "1"), ("z", 5)]]


def grid_cases():
    """URL shapes x both functions, identical at every seed."""
    for fn in ("1.0", "1.0a"):
        for scheme, port in (("http", None), ("HTTPS", 443), ("http", 8080)):
            for path in ("", "/", "/p", "/a;v=1", "/r%20v/X"):
                for query_mode in (None, "all", "some", "plus", "empty"):
                    for fragment in (None, "", "frag"):
                        for userinfo in (None, "User:Pw"):
                            for params in GRID_PARAMS:
                                yield {"fn": fn, "consumer_secret": "c s&", "token_secret": "t/s", "method": "post", "scheme": scheme,
                                       "host": "Example.COM", "port": port, "path": path, "params": params,
                                       "query_mode": query_mode, "fragment": fragment, "userinfo": userinfo}


# --------------------------------------------------------------------------- reuse of one key pair
# An application signs all of its requests with a handful of (consumer secret, token secret) pairs.  A case of this
# part is a history: 2-4 DIFFERENT requests signed one after the other with the same pair (both functions mixed,
# one request repeated verbatim at the end).  Each signature is judged on its own against the reference.
def run_sequence(ctx, case):
    ctx.label("same_key_sequence")
    reqs = list(case["requests"])
    reqs.append(reqs[0])  # the first request once more, after the others
    for i, req in enumerate(reqs):
        run_case(ctx, dict(req, consumer_secret=case["consumer_secret"], token_secret=case["token_secret"]))
        if i:
            ctx.label("signature_after_earlier_one_with_same_key")


sequence_s = st.fixed_dictionaries({
    "consumer_secret": secret_s,
    "token_secret": st.one_of(st.none(), secret_s, secret_s),
    "requests": st.lists(case_s, min_size=2, max_size=4),
})

PARTS = {"main": run_case, "grid": run_case, "sequence": run_sequence}


def main(ctx):
    ctx.run_replays(PARTS)
    ctx.enumerate(grid_cases(), run_case, name="grid")
    ctx.explore(sequence_s, run_sequence, ctx.n(300, 30000), name="sequence")
    ctx.explore(case_s, run_case, ctx.n(2500, 270000), name="main")
