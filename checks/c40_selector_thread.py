"""C40 — Selector-thread loop never deadlocks, loses events or hangs on close.

Part ``sched`` (the main check): the real ``tornado.platform.asyncio.SelectorThread`` code runs on two
real threads — the selector thread it creates itself and the harness "actor" standing in for the
event-loop thread — under the baton scheduler ``vlib/sched.py``: exactly one of them executes at any
time and they switch only at instrumented points, chosen by a *generated schedule* (list of choices).
Instrumentation, installed for the duration of a case and restored in ``finally``:

* ``threading`` in the module's namespace -> shim whose ``Condition()`` is the scheduler's condition
  (acquire / wait are points; owner tracked) and whose ``Thread`` parks at start, and makes ``join`` a point;
* ``select`` in the module's namespace -> shim whose ``select()`` is a point that is ready when one of the
  passed fds is ready: application fds are virtual (ints with harness-owned readable/writable flags),
  the waker is the real socket pair (polled with the real ``select`` and timeout 0);
* ``real_loop`` -> a fake loop: ``call_soon``/``call_soon_threadsafe`` (a point) queue callbacks that only the
  actor runs; ``create_task`` drives the thread-manager coroutine to its ``yield``; after close the loop
  is closed (``RuntimeError`` like asyncio);
* ``Probe(SelectorThread)`` turns ``_select_args`` / ``_closing_selector`` into properties that record any
  access made without holding ``_select_cond`` once the thread exists.

The actor executes a generated program (<=15 ops over 3 virtual fds): add/remove reader/writer, make an
fd readable/writable, clear it, remove+close an fd (``remove_close``: unregister, then close — the
order the class documents), run one pending loop callback, close.  The scripted ``select`` starts at its
own point ``select_enter``; if by then one of the fds it was handed has been closed it raises
``OSError(EBADF)`` like the real one, which drives ``_run_select``'s EBADF recovery branch (re-poll the
waker, report a waker-only result so the loop republishes the fd set).  One third of the programs are
aimed at it: fd a enters a published set, is removed and closed — possibly before the selector thread
has entered select — while another fd b is or becomes registered and ready and must still be
dispatched.  Re-adding a closed number models descriptor reuse.  ``burst`` performs 40..900 registration
changes inside one actor step (one loop callback, the baton is not passed): the real waker socket's
buffer fills up (label ``waker_buffer_full``).  ``_waker_w`` is wrapped so that a ``send`` that would block
(blocking socket, buffer full) becomes a scheduler point that only a drain can make ready — the loop
thread is the only one that drains, so the ordinary no-runnable-thread rule reports it as a deadlock
instead of the harness hanging in the kernel.  Handlers consume the readiness
they are dispatched for (like reading the data) and optionally unregister themselves (one-shot).
Handlers may also unregister *another* registration from inside the dispatch (``cross`` rules: another
fd's reader/writer, or their own fd's other direction); one case in eight is aimed at the situation where
the removed registration's event sits later in the very same select batch (two readers removing each
other; one fd readable+writable whose read handler removes the writer), with a third registration made
ready afterwards.  An exception that escapes a loop callback is recorded the way asyncio's exception
handler would see it (``C40.exception_in_loop_callback``) and the run goes on, so the lost events that
follow are observed too.
One case in eight closes *before the wrapped loop has run for the first time* (right after construction or
after a few registrations; the selector thread is created lazily by a call_soon'ed task), and in half
of all cases the wrapped loop keeps running after the shutdown (``run_loop_after_close``): everything
still queued — possibly the thread start itself — runs to quiescence, then the loop is shut down the
way asyncio does it (``shutdown_asyncgens`` -> ``aclose`` -> ``close()``, a no-op by then).  The shutdown
clause is evaluated after that: a selector thread created after ``close()`` must terminate too.
After the program a *fair completion* runs (pending callbacks and the selector thread alternate until
nothing can move), then the shutdown (``close()``, the ``atexit`` hook, or the async-generator
``aclose`` path that ``shutdown_asyncgens`` takes), then ``close()`` again.

Oracle.  (1) never more than one ``select`` in progress; (2) handler callbacks and ``_handle_select``
only ever run on the actor thread; (3) no deadlock: whenever the scheduler has to pick a thread, at
least one can run (otherwise: who waits where is reported); (4) no lost event: at quiescence no fd is
both still registered and still ready (every readiness of a registered fd was dispatched); (5) shutdown
returns, the selector thread has exited, no select in progress, both waker sockets closed, instance
removed from the atexit set, a second ``close()`` changes nothing; (6) lock discipline (Probe);
(7) the selector thread never dies with an exception.

Part ``smoke``: unpatched ``AddThreadSelectorEventLoop`` around a real asyncio loop with socket pairs:
generated add_reader / remove_reader / write programs; order-independent oracle (every byte written to
a pair whose reader stays registered is eventually read by its handler on the loop thread; ``close()``
returns and the thread is joined).  Waiting is bounded by a generous real-time cap whose expiry is
*inconclusive* (HarnessError -> exit 2), never a violation.

Limits (not covered): pre-emption inside C calls and between arbitrary bytecodes (atomic steps are the
intervals between instrumented points — sound for the lock-protected state, which the Probe checks,
and for thread-confined state); closing a *registered* fd and the ``raise`` arm of the EBADF branch
(waker not readable; unreachable when fds are removed before being closed); Windows/proactor-specific
behaviour; schedules are generated, not exhaustively enumerated.

Sensitivity (quick tier, seed 1, one mutant at a time on a scratch copy; all found by part ``sched``):
  * ``add_reader`` without ``_wake_selector()`` ........................... caught (C40.lost_event, thread in select)
  * ``_start_select`` without ``notify()`` ................................ caught (C40.lost_event, thread in cond_wait)
  * ``close`` sets ``_closing_selector`` outside the lock, no notify ...... caught (C40.unsynchronised_access)
  * ``close`` takes the lock but does not ``notify()`` .................... caught (C40.deadlock: join vs cond_wait)
  * ``close`` without ``_wake_selector()`` ................................ caught (C40.deadlock: join vs select)
  * ``_handle_select`` not restarting the select .......................... caught (C40.lost_event)
  * ``_run_select`` calls ``_handle_select`` directly ...................... caught (C40.callback_off_loop_thread)
  * ``_run_select`` does not clear ``_select_args`` ........................ caught (C40.exception_in_loop_callback: AssertionError in _start_select)
  * EBADF recovery branch ``continue``s to the top of the thread loop instead of reporting the
    waker-only result (no ``_handle_select``, select never restarted) ..... caught (C40.lost_event, thread
    in cond_wait; seeds 1..3, < 1 s; needs ``remove_close`` between publish and select_enter)
  * ``_waker_w.setblocking(False)`` dropped in ``__init__`` (``_wake_selector``'s BlockingIOError handler
    can no longer fire; ~280 wake-ups in one callback block the loop thread for ever) ... caught
    (C40.deadlock: actor at ``waker_send_blocked``; needs a ``burst`` op)
  * ``close()``: the whole stop sequence (closing flag + notify, waker write) moved under
    ``if self._thread is not None`` (a close before the loop's first iteration no longer records the flag;
    the thread started later blocks in select for ever) ................... caught (C40.thread_alive_after_close /
    C40.select_in_progress_after_close, thread parked in ``select``; seeds 1..3, < 1 s; minimal case:
    close right after construction, then the loop runs)
  * ``_handle_select`` filters the select result once up front and ``_handle_event`` calls ``cb_map[fd]()``
    unguarded (a handler that unregisters a registration whose event is later in the same batch makes
    it raise KeyError; ``_start_select`` is skipped and all later readiness is lost) ... caught
    (C40.exception_in_loop_callback KeyError, followed by C40.lost_event; label
    ``handler_removed_other_registration``)
  When ``sched`` has found a violation the ``smoke`` part is skipped (with these mutants it would hang
  until its cap and turn the run into exit 2 = inconclusive).
"""
import asyncio
import collections
import errno
import select as real_select
import socket
import threading as real_threading

from hypothesis import strategies as st

import tornado.platform.asyncio as pa
from tornado.platform.asyncio import AddThreadSelectorEventLoop, SelectorThread

from vlib.runner import HarnessError
from vlib.sched import Abort, Sched

PROPERTY = "C40"
READY = True
RULE = (
    "Hypothesis: actor program of <=15 ops over 3 virtual fds (add/remove reader/writer, make readable/"
    "writable, clear, remove+close an fd (scripted select then raises EBADF), a burst of 40..900 "
    "registration changes in one step (fills the real waker socket), run one loop callback, "
    "close; thread started before or during the program; 1/3 of the programs aimed at the EBADF path) x "
    "generated schedule of <=80 binary choices (then stay-on-thread or always-switch) x "
    "shutdown path (close / atexit hook / asyncgen aclose; 1/7 of the cases close before the loop's first "
    "iteration; in half of the cases the wrapped loop keeps running after the shutdown) x one-shot "
    "handlers and handlers that unregister other registrations of the same batch; the real SelectorThread "
    "code runs on two real threads serialised by a baton scheduler; non-trivial = the schedule switches "
    "threads >=3 times between a registration change and the next select, or the shutdown lands while "
    "the selector thread is inside select or waiting on the condition; distinct = SHA-1 of the case"
)
ASSUMPTIONS = [
    "atomic steps are the intervals between instrumented points (condition acquire/wait/notify, select, "
    "call_soon_threadsafe, thread start/join, actor op boundaries); shared state is only touched under "
    "_select_cond (checked by the Probe) or is confined to one thread",
    "select() is level-triggered over harness-owned readiness flags; the waker socket pair is real and a "
    "byte sent on an AF_UNIX pair is immediately readable",
    "handlers consume the readiness they were dispatched for, so a fair completion reaches quiescence",
]
TECHNIQUE = "controlled-concurrency testing: baton scheduler with generated schedules over the real two-thread code, invariants checked at every step, plus a real-thread smoke test"
LEVEL_TEXT = (
    "500 generated (program, schedule) pairs per quick run (30 000 thorough), <=3 fds, <=15 actor ops; "
    "each run is deterministic and replayable.  Interleavings are sampled, not exhausted; pre-emption "
    "finer than the instrumented points is not modelled."
)
SHARDS = 16

FDS = [100, 101, 102]


class Shim:
    def __init__(self, real, **over):
        self.__dict__["_real"] = real
        self.__dict__.update(over)

    def __getattr__(self, name):
        return getattr(self._real, name)


class FakeLoop:
    """What SelectorThread needs from the wrapped loop; callbacks are run by the actor only."""

    def __init__(self, sched, env):
        self.sched = sched
        self.env = env
        self.queue = collections.deque()
        self.closed = False

    def call_soon(self, cb, *args, context=None):
        self.queue.append((cb, args, context))

    def call_soon_threadsafe(self, cb, *args, context=None):
        self.sched.point("call_soon_threadsafe")
        if self.closed:
            raise RuntimeError("Event loop is closed")
        self.queue.append((cb, args, context))

    def create_task(self, coro):
        try:
            coro.send(None)
        except StopIteration:
            return None
        raise HarnessError("thread manager coroutine awaited something")

    def run_one(self):
        if not self.queue:
            return False
        cb, args, context = self.queue.popleft()
        try:
            if context is not None:
                context.run(cb, *args)
            else:
                cb(*args)
        except HarnessError:
            raise
        except Exception as e:  # noqa: BLE001
            # asyncio would hand this to the loop's exception handler and go on; the harness's own
            # handlers never raise, so an exception here comes out of the code under test
            self.env.problem("C40.exception_in_loop_callback",
                             {"callback": getattr(cb, "__name__", repr(cb))[:60], "exception": repr(e)[:200]})
        return True


class WakerSendProxy:
    """Stands in for ``SelectorThread._waker_w`` (everything but ``send`` is forwarded).  The waker pair is
    real.  Its read side is only ever drained by ``_consume_waker`` on the loop thread, so a ``send`` that
    would *block* (blocking socket, buffer full) while the loop thread is the sender can never return.
    Instead of letting the harness hang in the kernel, such a send becomes a scheduler point that is ready
    only when the socket is writable: if nothing can make it writable the scheduler's ordinary
    no-runnable-thread rule reports the deadlock.  A non-blocking socket just raises BlockingIOError,
    which the code under test is expected to swallow."""

    def __init__(self, sock, sched, env):
        self.__dict__.update(_sock=sock, _sched=sched, _env=env)

    def _writable(self):
        try:
            return bool(real_select.select([], [self._sock], [], 0)[1])
        except (ValueError, OSError):
            return True

    def send(self, data, *args):
        if self._sock.getblocking() and not self._writable():
            self._env.labels.add("waker_send_would_block")
            self._sched.point("waker_send_blocked", self._writable)
        try:
            return self._sock.send(data, *args)
        except BlockingIOError:
            self._env.labels.add("waker_buffer_full")
            raise

    def __getattr__(self, name):
        return getattr(self._sock, name)

    def __setattr__(self, name, value):
        setattr(self._sock, name, value)


class Env:
    def __init__(self, sched):
        self.sched = sched
        self.readable = {fd: False for fd in FDS}
        self.writable = {fd: False for fd in FDS}
        self.oneshot = set()
        self.cross = []  # (src fd idx, "r"|"w", target fd idx, "r"|"w")
        self.closed = set()  # virtual fds closed by the actor (after removing them)
        self.ebadf = 0
        self.dispatches_after_ebadf = 0
        self.select_depth = 0
        self.max_select_depth = 0
        self.selects = 0
        self.dispatches = []
        self.problems = []
        self.probe = None
        self.last_change_switches = None
        self.labels = set()

    def problem(self, clause, detail):
        self.problems.append((clause, detail))

    # ---- scripted select (runs on whichever thread calls select.select in the module)
    def _poll(self, r, w):
        rs = []
        for fd in r:
            if isinstance(fd, int) and fd in self.readable:
                if self.readable[fd]:
                    rs.append(fd)
            else:
                try:
                    if real_select.select([fd], [], [], 0)[0]:
                        rs.append(fd)
                except (ValueError, OSError):
                    rs.append(fd)  # closed waker: a real select would fail/return; never block on it
        ws = [fd for fd in w if self.writable.get(fd, False)]
        return rs, ws

    def fake_select(self, r, w, x, timeout=None):
        if self.sched.is_actor():
            self.problem("C40.select_on_loop_thread", {})
        self.select_depth += 1
        self.max_select_depth = max(self.max_select_depth, self.select_depth)
        self.selects += 1
        if self.select_depth > 1:
            self.problem("C40.concurrent_selects", {"depth": self.select_depth})
        if self.last_change_switches is not None:
            if self.sched.switches - self.last_change_switches >= 3:
                self.labels.add("switches_ge3_between_change_and_select")
            self.last_change_switches = None
        r, w = list(r), list(w)
        try:
            # The call starts when the thread is scheduled past this point: like the real select it
            # fails with EBADF if one of the fds it was handed has been closed by then (the loop thread
            # may remove + close an fd after publishing the set and before the thread gets here).
            self.sched.point("select_enter")
            bad = [fd for fd in r + w if isinstance(fd, int) and fd in self.closed]
            if bad:
                self.ebadf += 1
                self.labels.add("ebadf_raised")
                raise OSError(errno.EBADF, "Bad file descriptor")
            self.sched.point("select", lambda: timeout == 0 or any(self._poll(r, w)))
            rs, ws = self._poll(r, w)
        finally:
            self.select_depth -= 1
        return rs, ws, []

    # ---- handlers (must run on the actor)
    def on_read(self, fd):
        self._dispatched("r", fd)
        self.readable[fd] = False
        if fd in self.oneshot:
            self.probe.remove_reader(fd)
        self._cross_remove("r", fd)

    def on_write(self, fd):
        self._dispatched("w", fd)
        self.writable[fd] = False
        if fd in self.oneshot:
            self.probe.remove_writer(fd)
        self._cross_remove("w", fd)

    def _cross_remove(self, kind, fd):
        """A handler that unregisters ANOTHER registration (another fd's, or its own fd's other
        direction) — possibly one whose event sits later in the very batch being dispatched."""
        for src, src_kind, tgt, tgt_kind in self.cross:
            if FDS[src] == fd and src_kind == kind:
                removed = self.probe.remove_reader(FDS[tgt]) if tgt_kind == "r" else self.probe.remove_writer(FDS[tgt])
                if removed:
                    self.labels.add("handler_removed_other_registration")

    def _dispatched(self, kind, fd):
        self.dispatches.append((kind, fd))
        if self.ebadf:
            self.dispatches_after_ebadf += 1
        if not self.sched.is_actor():
            self.problem("C40.callback_off_loop_thread", {"kind": kind, "fd": fd, "thread": self.sched.name_of()})


class Probe(SelectorThread):
    """Lock-discipline probe: the two fields shared between the threads may only be touched under
    _select_cond once the selector thread exists."""

    def _chk(self, name, how):
        env = self.__dict__.get("_env")
        if env is None or self.__dict__.get("_thread") is None:
            return
        if not self._select_cond.held_by_me():
            env.problem("C40.unsynchronised_access", {"field": name, "how": how, "thread": env.sched.name_of()})

    @property
    def _select_args(self):
        self._chk("_select_args", "read")
        return self.__dict__.get("_sa")

    @_select_args.setter
    def _select_args(self, v):
        self._chk("_select_args", "write")
        self.__dict__["_sa"] = v

    @property
    def _closing_selector(self):
        self._chk("_closing_selector", "read")
        return self.__dict__.get("_cs", False)

    @_closing_selector.setter
    def _closing_selector(self, v):
        self._chk("_closing_selector", "write")
        self.__dict__["_cs"] = v


def selector_state(sched):
    others = sched.live_others()
    if not others:
        return "none"
    return others[0]["label"] or "running"


def run_sched_case(ctx, case):
    sched = Sched(case["schedule"], tail_policy=case["tail_policy"])
    env = Env(sched)
    env.oneshot = {FDS[i] for i in case["oneshot"]}
    env.cross = [tuple(r) for r in case.get("cross", [])]
    saved = (pa.threading, pa.select, pa._selector_loops)
    pa.threading = Shim(real_threading, Thread=sched.Thread, Condition=sched.Condition)
    pa.select = Shim(real_select, select=env.fake_select)
    pa._selector_loops = set()
    probe = None
    loop = FakeLoop(sched, env)
    labels = env.labels
    state_at_shutdown = None
    phase = "construct"
    try:
        try:
            probe = Probe(loop)
            probe.__dict__["_env"] = env
            probe._waker_w = WakerSendProxy(probe._waker_w, sched, env)
            env.probe = probe
            phase = "program"
            closed_in_program = False
            if case["start_first"]:
                loop.run_one()  # "when the loop starts": the selector thread exists before the program
            for op in case["program"]:
                sched.point("op")
                kind = op[0]
                if kind == "run":
                    loop.run_one()
                elif kind == "close":
                    closed_in_program = True
                    break
                else:
                    fd = FDS[op[1]]
                    if kind in ("add_reader", "add_writer", "burst") and fd in env.closed:
                        # the number is reused by a new descriptor
                        env.closed.discard(fd)
                        env.readable[fd] = env.writable[fd] = False
                    if fd in env.closed and kind in ("ready", "writable", "clear"):
                        continue  # no such descriptor
                    if kind == "add_reader":
                        probe.add_reader(fd, env.on_read, fd)
                    elif kind == "add_writer":
                        probe.add_writer(fd, env.on_write, fd)
                    elif kind == "burst":
                        # many registration changes inside ONE loop callback: the loop thread never gets
                        # to drain the waker in between, so its socket buffer fills up (~280 bytes)
                        for _ in range(op[2]):
                            probe.add_reader(fd, env.on_read, fd)
                        labels.add("burst")
                    elif kind == "remove_close":
                        # the documented order: unregister, then close (never close a registered fd)
                        probe.remove_reader(fd)
                        probe.remove_writer(fd)
                        env.closed.add(fd)
                        env.readable[fd] = env.writable[fd] = False
                        labels.add("remove_close")
                    elif kind == "remove_reader":
                        probe.remove_reader(fd)
                    elif kind == "remove_writer":
                        probe.remove_writer(fd)
                    elif kind == "ready":
                        env.readable[fd] = True
                    elif kind == "writable":
                        env.writable[fd] = True
                    elif kind == "clear":
                        env.readable[fd] = False
                        env.writable[fd] = False
                    if kind.startswith(("add_", "remove_", "burst")):
                        env.last_change_switches = sched.switches
            if not closed_in_program:
                # fair completion, then the no-lost-event clause
                phase = "completion"
                sched.fair = True
                for _ in range(4000):
                    if loop.run_one():
                        continue
                    sched.point("idle")
                    if not loop.queue and not sched.others_ready():
                        break
                else:
                    raise HarnessError("fair completion did not reach quiescence")
                sched.fair = False
                lost = [("r", fd) for fd in probe._readers if isinstance(fd, int) and env.readable[fd]]
                lost += [("w", fd) for fd in probe._writers if isinstance(fd, int) and env.writable[fd]]
                if lost:
                    env.problem("C40.lost_event", {"registered_and_ready_at_quiescence": lost,
                                                   "selector_thread_at": selector_state(sched),
                                                   "dispatches": env.dispatches})
                labels.add("quiescence_checked")
                if env.dispatches:
                    labels.add("dispatched")
                if len(env.dispatches) >= 2:
                    labels.add("dispatched_ge2")
                if env.selects >= 3:
                    labels.add("selects_ge3")
                if env.dispatches_after_ebadf:
                    labels.add("dispatched_after_ebadf_recovery")
            # ---- shutdown
            phase = "shutdown"
            state_at_shutdown = selector_state(sched)
            how = case["shutdown"]
            started = probe.__dict__.get("_thread") is not None
            if how == "aclose" and not started:
                how = "close"
            labels.add("shutdown_" + how)
            if how == "close":
                probe.close()
            elif how == "atexit":
                pa._atexit_callback()
                if pa._selector_loops:
                    env.problem("C40.atexit_left_loops", {})
                if started and not probe._thread.finished:
                    env.problem("C40.thread_alive_after_atexit", {})
                probe.close()
            else:
                try:
                    probe._thread_manager_handle.aclose().send(None)
                except StopIteration:
                    pass
                else:
                    raise HarnessError("aclose awaited something")
            if case.get("run_loop_after_close"):
                # The SelectorThread was closed but the wrapped loop lives on (the class "can be attached
                # to a running asyncio loop", and its thread is created lazily by a call_soon'ed task): run
                # everything that is still queued — possibly the thread start itself — until nothing can
                # move, then shut the loop down the way asyncio does (shutdown_asyncgens -> aclose of the
                # thread manager -> close(), a no-op by now).
                phase = "loop_runs_after_close"
                labels.add("loop_run_after_close")
                had_thread = probe.__dict__.get("_thread") is not None
                sched.fair = True
                for _ in range(4000):
                    if loop.run_one():
                        continue
                    sched.point("idle")
                    if not loop.queue and not sched.others_ready():
                        break
                else:
                    raise HarnessError("loop after close did not reach quiescence")
                sched.fair = False
                if not had_thread and probe.__dict__.get("_thread") is not None:
                    labels.add("thread_started_after_close")
                try:
                    probe._thread_manager_handle.aclose().send(None)
                except StopIteration:
                    pass
                else:
                    raise HarnessError("aclose awaited something")
            loop.closed = True
            loop.queue.clear()
            phase = "after_shutdown"
            t = probe.__dict__.get("_thread")
            if t is not None:
                if not t.finished:
                    # nothing is runnable any more and the thread has not returned: it is parked for ever
                    env.problem("C40.thread_alive_after_close", {"state": selector_state(sched), "phase": phase,
                                                                 "thread_started_after_close": "thread_started_after_close" in labels})
                else:
                    real_threading.Thread.join(t, 60.0)
                    if t.is_alive():
                        raise HarnessError("finished participant thread did not exit")
            if env.select_depth:
                env.problem("C40.select_in_progress_after_close", {})
            if probe._waker_r.fileno() != -1 or probe._waker_w.fileno() != -1:
                env.problem("C40.waker_not_closed", {})
            if probe in pa._selector_loops:
                env.problem("C40.still_in_atexit_set", {})
            before = (len(sched.trace), dict(probe._readers), dict(probe._writers), probe._closed)
            probe.close()
            after = (len(sched.trace), dict(probe._readers), dict(probe._writers), probe._closed)
            if before != after or not probe._closed:
                env.problem("C40.second_close_not_noop", {"before": repr(before), "after": repr(after)})
        except Abort:
            if sched.deadlock is not None:
                env.problem("C40.deadlock", {"phase": phase, "threads": sched.deadlock, "tail": sched.trace[-12:]})
            elif not sched.thread_errors:
                raise HarnessError("scheduler aborted without a deadlock")
        if sched.thread_errors:
            env.problem("C40.selector_thread_crashed", {"errors": sched.thread_errors, "phase": phase})
    finally:
        # nothing may outlive the case
        sched.abort()
        if probe is not None:
            t = probe.__dict__.get("_thread")
            if t is not None:
                sched.drain_threads([t])
            probe.__dict__["_env"] = None
            probe._closed = True
            for s in (probe.__dict__.get("_waker_r"), probe.__dict__.get("_waker_w")):
                if s is not None:
                    s.close()
            h = probe.__dict__.get("_thread_manager_handle")
            if h is not None:
                try:
                    h.aclose().send(None)
                except (StopIteration, RuntimeError):
                    pass
        pa.threading, pa.select, pa._selector_loops = saved

    if env.max_select_depth > 1 and not any(c == "C40.concurrent_selects" for c, _ in env.problems):
        env.problem("C40.concurrent_selects", {"depth": env.max_select_depth})
    if state_at_shutdown in ("select", "select_enter"):
        labels.add("shutdown_while_in_select")
    elif state_at_shutdown == "cond_wait":
        labels.add("shutdown_while_cond_wait")
    elif state_at_shutdown == "none":
        labels.add("shutdown_before_thread_start")
    elif state_at_shutdown is not None:
        labels.add("shutdown_while_" + state_at_shutdown)
    if sched.pos >= 3:
        labels.add("schedule_choices_ge3")
    nontrivial = bool(labels & {"switches_ge3_between_change_and_select", "shutdown_while_in_select", "shutdown_while_cond_wait"})
    ctx.note(case, labels, nontrivial)
    if env.problems:
        clause, detail = env.problems[0]
        detail = dict(detail, all_clauses=sorted({c for c, _ in env.problems}))
        ctx.fail(clause, detail)


# ----------------------------------------------------------------------------- real-thread smoke part
SMOKE_CAP_S = 20.0


def run_smoke_case(ctx, case):
    """Unpatched classes, real loop, socket pairs.  Order-independent oracle; a time cap is inconclusive."""
    real = asyncio.new_event_loop()
    loop = AddThreadSelectorEventLoop(real)
    pairs = [socket.socketpair() for _ in range(3)]
    for a, b in pairs:
        a.setblocking(False)
        b.setblocking(False)
    got = [bytearray() for _ in pairs]
    sent = [bytearray() for _ in pairs]
    registered = [False] * 3
    off_thread = []
    main_ident = real_threading.get_ident()

    def on_read(i):
        if real_threading.get_ident() != main_ident:
            off_thread.append(i)
        try:
            got[i] += pairs[i][0].recv(4096)
        except BlockingIOError:
            pass

    async def scenario():
        n = 0
        for op in case["program"]:
            kind, i = op[0], op[1]
            if kind == "add":
                loop.add_reader(pairs[i][0], on_read, i)
                registered[i] = True
            elif kind == "remove":
                loop.remove_reader(pairs[i][0])
                registered[i] = False
            elif kind == "write":
                n += 1
                data = bytes([65 + n % 26]) * op[2]
                pairs[i][1].send(data)
                sent[i] += data
            elif kind == "yield":
                for _ in range(op[2]):
                    await asyncio.sleep(0)
        # every byte written to a pair whose reader is (still) registered must arrive
        deadline = real.time() + SMOKE_CAP_S
        while any(registered[i] and len(got[i]) < len(sent[i]) for i in range(3)):
            if real.time() > deadline:
                raise HarnessError("smoke: data not delivered within %.0fs (inconclusive)" % SMOKE_CAP_S)
            await asyncio.sleep(0.001)

    try:
        real.run_until_complete(scenario())
        thread = loop._selector._thread
    finally:
        closer = real_threading.Thread(target=loop.close, daemon=True)
        closer.start()
        closer.join(SMOKE_CAP_S)
        hung = closer.is_alive()
        for a, b in pairs:
            a.close()
            b.close()
    if hung:
        raise HarnessError("smoke: close() did not return within %.0fs (inconclusive)" % SMOKE_CAP_S)
    if thread is not None and thread.is_alive():
        ctx.fail("C40.smoke_thread_alive_after_close", {})
    if off_thread:
        ctx.fail("C40.smoke_callback_off_loop_thread", {"fds": off_thread})
    for i in range(3):
        if registered[i] and bytes(got[i]) != bytes(sent[i]):
            ctx.fail("C40.smoke_data_mismatch", {"pair": i, "got": bytes(got[i]), "sent": bytes(sent[i])})
        if not bytes(sent[i]).startswith(bytes(got[i])):
            ctx.fail("C40.smoke_data_corrupt", {"pair": i, "got": bytes(got[i]), "sent": bytes(sent[i])})
    ctx.note(case, {"smoke"}, False)


# ----------------------------------------------------------------------------- generators
_fd = st.sampled_from([0, 0, 0, 0, 1, 2])


def _w(strategy, n):
    return [strategy.map(lambda x: x) for _ in range(n)]  # one_of de-duplicates identical objects


_op = st.one_of(
    *_w(st.tuples(st.just("run")), 3),
    *_w(st.tuples(st.just("add_reader"), _fd), 3),
    *_w(st.tuples(st.just("ready"), _fd), 3),
    st.tuples(st.just("add_writer"), _fd),
    st.tuples(st.just("writable"), _fd),
    st.tuples(st.just("remove_reader"), _fd),
    st.tuples(st.just("remove_writer"), _fd),
    st.tuples(st.just("clear"), _fd),
    *_w(st.tuples(st.just("remove_close"), _fd), 2),
    st.tuples(st.just("burst"), _fd, st.sampled_from([40, 320, 500, 900])),
    st.tuples(st.just("close")),
)


@st.composite
def _ebadf_program(draw):
    """Aimed at the EBADF recovery path: fd a gets into a published set, is then removed and closed
    (possibly before the selector thread has entered select), while another fd b is (or becomes)
    registered and ready and must still be dispatched."""
    a = draw(st.sampled_from([0, 1]))
    b = 2 if draw(st.booleans()) else 1 - a
    runs = lambda lo, hi: [("run",)] * draw(st.integers(lo, hi))  # noqa: E731
    head = draw(st.lists(_op, max_size=2)) + [("add_reader", a)] + runs(1, 4)
    tail = draw(st.permutations([("add_reader", b), ("ready", b)] + runs(0, 2)))
    if draw(st.booleans()):
        body = [("remove_close", a)] + list(tail)
    else:
        k = draw(st.integers(0, len(tail)))
        body = list(tail[:k]) + [("remove_close", a)] + list(tail[k:])
    return head + body + draw(st.lists(_op, max_size=3))


_cross_rule = st.tuples(_fd, st.sampled_from(["r", "r", "w"]), _fd, st.sampled_from(["r", "r", "w"]))


@st.composite
def _cross_case(draw):
    """Aimed at 'a handler unregisters a registration whose event is later in the same select batch':
    two registrations become ready before the select that first contains them returns, their handlers
    remove each other (or the read handler removes its own fd's writer); a third registration c is made
    ready afterwards and must still be dispatched."""
    a, b, c = draw(st.permutations([0, 1, 2]))
    runs = lambda lo, hi: [("run",)] * draw(st.integers(lo, hi))  # noqa: E731
    if draw(st.booleans()):
        setup = [("ready", a), ("ready", b), ("add_reader", a), ("add_reader", b)]
        cross = [(a, "r", b, "r"), (b, "r", a, "r")]
    else:
        setup = [("ready", a), ("writable", a), ("add_reader", a), ("add_writer", a)]
        cross = [(a, "r", a, "w")] + ([(a, "w", a, "r")] if draw(st.booleans()) else [])
    program = list(draw(st.permutations(setup))) + runs(1, 4)
    program += list(draw(st.permutations([("add_reader", c), ("ready", c)] + runs(0, 2)))) + draw(st.lists(_op, max_size=3))
    return {
        "program": program,
        "start_first": draw(st.booleans()),
        "tail_policy": draw(st.sampled_from(["stay", "switch"])),
        "schedule": draw(st.lists(st.integers(0, 1), max_size=60)),
        "shutdown": draw(st.sampled_from(["close", "atexit", "aclose"])),
        "oneshot": [],
        "cross": cross + draw(st.lists(_cross_rule, max_size=1)),
        "run_loop_after_close": draw(st.booleans()),
    }


_no_run_op = st.one_of(
    *_w(st.tuples(st.just("add_reader"), _fd), 3),
    st.tuples(st.just("add_writer"), _fd),
    st.tuples(st.just("ready"), _fd),
    st.tuples(st.just("remove_reader"), _fd),
)
# close() before the wrapped loop has run for the first time (the selector thread does not exist yet):
# immediately after construction, or after some registrations; the loop runs afterwards.
_early_close_program = st.lists(_no_run_op, max_size=3).map(lambda ops: list(ops) + [("close",)])

_general_case_s = st.fixed_dictionaries({
    "program": st.one_of(st.lists(_op, min_size=2, max_size=15), st.lists(_op, min_size=2, max_size=15).map(list),
                         _ebadf_program()),
    "start_first": st.booleans(),
    "tail_policy": st.sampled_from(["stay", "switch"]),
    "schedule": st.lists(st.integers(0, 1), max_size=80),
    "shutdown": st.sampled_from(["close", "close", "atexit", "aclose"]),
    "oneshot": st.lists(_fd, max_size=2, unique=True),
    "cross": st.one_of(st.just([]), st.just([]), st.lists(_cross_rule, min_size=1, max_size=3)),
    "run_loop_after_close": st.booleans(),
})
_early_close_case_s = st.fixed_dictionaries({
    "program": _early_close_program,
    "start_first": st.just(False),
    "tail_policy": st.sampled_from(["stay", "switch"]),
    "schedule": st.lists(st.integers(0, 1), max_size=30),
    "shutdown": st.sampled_from(["close", "close", "atexit"]),
    "oneshot": st.just([]),
    "run_loop_after_close": st.just(True),
})
sched_case_s = st.one_of(*_w(_general_case_s, 6), _early_close_case_s, _cross_case())

_smoke_op = st.one_of(
    st.tuples(st.just("add"), _fd),
    st.tuples(st.just("add"), _fd),
    st.tuples(st.just("remove"), _fd),
    st.tuples(st.just("write"), _fd, st.integers(1, 64)),
    st.tuples(st.just("write"), _fd, st.integers(1, 64)),
    st.tuples(st.just("yield"), st.just(0), st.integers(1, 3)),
)
smoke_case_s = st.fixed_dictionaries({"program": st.lists(_smoke_op, max_size=12)})

PARTS = {"sched": run_sched_case, "smoke": run_smoke_case}


def main(ctx):
    ctx.run_replays(PARTS)
    ctx.explore(sched_case_s, run_sched_case, ctx.n(500, 30000), name="sched")
    if ctx.violations:
        return  # already decided; an inconclusive (exit 2) smoke run must not mask the violation
    ctx.explore(smoke_case_s, run_smoke_case, ctx.n(25, 1600), name="smoke")
