"""C40 — Selector-thread loop never deadlocks, loses events or hangs on close.

Part ``sched`` (the main check): the real ``tornado.platform.asyncio.SelectorThread`` code runs on two
real threads — the selector thread it creates itself and the harness "actor" standing in for the
event-loop thread — under the baton scheduler ``vlib/sched.py``: exactly one of them executes at any
time and they switch only at instrumented points, chosen by a *generated schedule* (list of choices).
Instrumentation, installed for the duration of a case and restored in ``finally``:

* ``threading`` in the module's namespace -> shim whose ``Condition()`` is the scheduler's condition
  (acquire / wait are points; owner tracked) and whose ``Thread`` parks at start, and makes ``join`` a point;
* ``select`` in the module's namespace -> shim whose ``select()`` is a point that is ready when one of the
  passed fds is ready: application fds are virtual (ints with harness-owned readable/writable flags),
  the waker is the real socket pair (polled with the real ``select`` and timeout 0);
* ``real_loop`` -> a fake loop: ``call_soon``/``call_soon_threadsafe`` (a point) queue callbacks that only the
  actor runs; ``create_task`` drives the thread-manager coroutine to its ``yield``; after close the loop
  is closed (``RuntimeError`` like asyncio);
* ``Probe(SelectorThread)`` turns ``_select_args`` / ``_closing_selector`` into properties that record any
  access made without holding ``_select_cond`` once the thread exists.

The actor executes a generated program (<=15 ops over 3 virtual fds): add/remove reader/writer, make an
fd readable/writable, clear it, remove+close an fd (``remove_close``: unregister, then close — the
order the class documents), run one pending loop callback, ``park`` (the loop is idle: no callback runs while the selector threads go
on until none can move), close.  The scripted ``select`` starts at its
own point ``select_enter``; if by then one of the fds it was handed has been closed it raises
``OSError(EBADF)`` like the real one, which drives ``_run_select``'s EBADF recovery branch (re-poll the
waker, report a waker-only result so the loop republishes the fd set).  One third of the programs are
aimed at it: fd a enters a published set, is removed and closed — possibly before the selector thread
has entered select — while another fd b is or becomes registered and ready and must still be
dispatched.  Re-adding a closed number models descriptor reuse.  ``burst`` performs 40..900 registration
changes inside one actor step (one loop callback, the baton is not passed): the real waker socket's
buffer fills up (label ``waker_buffer_full``).  ``_waker_w`` is wrapped so that a ``send`` that would block
(blocking socket, buffer full) becomes a scheduler point that only a drain can make ready — the loop
thread is the only one that drains, so the ordinary no-runnable-thread rule reports it as a deadlock
instead of the harness hanging in the kernel.  Handlers consume the readiness
they are dispatched for (like reading the data) and optionally unregister themselves (one-shot).
Two instances (two cases in nine, half of them with both threads started and parked first): two ``SelectorThread`` objects are alive at once, with separate fake
loops and fd sets; their programs are interleaved on the one loop thread, each is shut down while the
other is still alive or after the common completion, in either order; all clauses are evaluated per
instance.  Hand-off state that the class declares at *class level* (created at import time, outside the
``threading`` shim) is given the same instrumentation with the same sharing structure: a real
``threading.Condition`` found in ``vars(SelectorThread)`` is replaced for the case by one scheduler
condition shared by all instances (restored afterwards), so a state wrongly shared between instances
shows up behaviourally (the wrong thread is woken: lost events / join deadlock) instead of escaping the
scheduler.  If the condition in use cannot be instrumented at all the Probe reports
``C40.handoff_state_not_instrumented`` rather than failing.
Handlers may also unregister *another* registration from inside the dispatch (``cross`` rules: another
fd's reader/writer, or their own fd's other direction); one case in eight is aimed at the situation where
the removed registration's event sits later in the very same select batch (two readers removing each
other; one fd readable+writable whose read handler removes the writer), with a third registration made
ready afterwards.  An exception that escapes a loop callback is recorded the way asyncio's exception
handler would see it (``C40.exception_in_loop_callback``) and the run goes on, so the lost events that
follow are observed too.
One case in eight closes *before the wrapped loop has run for the first time* (right after construction or
after a few registrations; the selector thread is created lazily by a call_soon'ed task), and in half
of all cases the wrapped loop keeps running after the shutdown (``run_loop_after_close``): everything
still queued — possibly the thread start itself — runs to quiescence, then the loop is shut down the
way asyncio does it (``shutdown_asyncgens`` -> ``aclose`` -> ``close()``, a no-op by then).  The shutdown
clause is evaluated after that: a selector thread created after ``close()`` must terminate too.
After the program a *fair completion* runs (pending callbacks and the selector thread alternate until
nothing can move), then the shutdown (``close()``, the ``atexit`` hook, or the async-generator
``aclose`` path that ``shutdown_asyncgens`` takes), then ``close()`` again.

Oracle.  (0) per select round: every event the round reported for a registration that is still there
after the round was dispatched in that round, order free (``C40.reported_event_not_dispatched``; the
finite form of "not starved": an event dropped whenever the fd's other direction is ready as well is
never delivered while that direction stays ready).  A deterministic family ``rw_same_fd`` (192 cases)
registers ONE fd for reading and writing, ready for both in the same round, both registrations kept.
(1) never more than one ``select`` in progress; (2) handler callbacks and ``_handle_select``
only ever run on the actor thread; (3) no deadlock: whenever the scheduler has to pick a thread, at
least one can run (otherwise: who waits where is reported); (4) no lost event: at quiescence no fd is
both still registered and still ready (every readiness of a registered fd was dispatched); (5) shutdown
returns, the selector thread has exited, no select in progress, both waker sockets closed, instance
removed from the atexit set, a second ``close()`` changes nothing; (6) lock discipline (Probe);
(7) the selector thread never dies with an exception.

Part ``smoke``: unpatched ``AddThreadSelectorEventLoop`` around a real asyncio loop with socket pairs:
generated add_reader / remove_reader / write programs; order-independent oracle (every byte written to
a pair whose reader stays registered is eventually read by its handler on the loop thread; ``close()``
returns and the thread is joined).  Waiting is bounded by a generous real-time cap whose expiry is
*inconclusive* (HarnessError -> exit 2), never a violation.

Limits (not covered): pre-emption inside C calls and between arbitrary bytecodes (atomic steps are the
intervals between instrumented points — sound for the lock-protected state, which the Probe checks,
and for thread-confined state); closing a *registered* fd and the ``raise`` arm of the EBADF branch
(waker not readable; unreachable when fds are removed before being closed); Windows/proactor-specific
behaviour; schedules are generated, not exhaustively enumerated.

Sensitivity (quick tier, seed 1, one mutant at a time on a scratch copy; all found by part ``sched``):
  * ``add_reader`` without ``_wake_selector()`` ........................... caught (C40.lost_event, thread in select)
  * ``_start_select`` without ``notify()`` ................................ caught (C40.lost_event, thread in cond_wait)
  * ``close`` sets ``_closing_selector`` outside the lock, no notify ...... caught (C40.unsynchronised_access)
  * ``close`` takes the lock but does not ``notify()`` .................... caught (C40.deadlock: join vs cond_wait)
  * ``close`` without ``_wake_selector()`` ................................ caught (C40.deadlock: join vs select)
  * ``_handle_select`` not restarting the select .......................... caught (C40.lost_event)
  * ``_run_select`` calls ``_handle_select`` directly ...................... caught (C40.callback_off_loop_thread)
  * ``_run_select`` does not clear ``_select_args`` ........................ caught (C40.exception_in_loop_callback: AssertionError in _start_select)
  * EBADF recovery branch ``continue``s to the top of the thread loop instead of reporting the
    waker-only result (no ``_handle_select``, select never restarted) ..... caught (C40.lost_event, thread
    in cond_wait; seeds 1..3, < 1 s; needs ``remove_close`` between publish and select_enter)
  * ``_waker_w.setblocking(False)`` dropped in ``__init__`` (``_wake_selector``'s BlockingIOError handler
    can no longer fire; ~280 wake-ups in one callback block the loop thread for ever) ... caught
    (C40.deadlock: actor at ``waker_send_blocked``; needs a ``burst`` op)
  * ``close()``: the whole stop sequence (closing flag + notify, waker write) moved under
    ``if self._thread is not None`` (a close before the loop's first iteration no longer records the flag;
    the thread started later blocks in select for ever) ................... caught (C40.thread_alive_after_close /
    C40.select_in_progress_after_close, thread parked in ``select``; seeds 1..3, < 1 s; minimal case:
    close right after construction, then the loop runs)
  * ``_handle_select`` filters the select result once up front and ``_handle_event`` calls ``cb_map[fd]()``
    unguarded (a handler that unregisters a registration whose event is later in the same batch makes
    it raise KeyError; ``_start_select`` is skipped and all later readiness is lost) ... caught
    (C40.exception_in_loop_callback KeyError, followed by C40.lost_event; label
    ``handler_removed_other_registration``)
  * hand-off state (``_select_cond`` = ``threading.Condition()``, ``_select_args``, ``_closing_selector``,
    ``_thread``) declared at class level: one condition shared by all instances, ``notify()`` wakes the
    oldest waiter, i.e. possibly the other instance's thread ............... caught (C40.deadlock in close()'s
    join / C40.lost_event, by the two-instance cases; label ``instances_share_one_condition``)
  * ``_handle_select`` as one pass over ``dict.fromkeys(rs, readers)`` updated with ``dict.fromkeys(ws,
    writers)`` (an fd readable AND writable in one round is a duplicate key: its read event is dropped,
    and the reader starves while the writer stays ready) .................. caught
    (C40.reported_event_not_dispatched, by the ``rw_same_fd`` family and generated cases)
  When ``sched`` has found a violation the ``smoke`` part is skipped (with these mutants it would hang
  until its cap and turn the run into exit 2 = inconclusive).
"""
import asyncio
import collections
import errno
import select as real_select
import socket
import threading as real_threading

from hypothesis import strategies as st

import tornado.platform.asyncio as pa
from tornado.platform.asyncio import AddThreadSelectorEventLoop, SelectorThread

from vlib.runner import HarnessError
from vlib.sched import Abort, Sched

PROPERTY = "C40"
READY = True
RULE = (
    "Hypothesis: actor program of <=15 ops over 3 virtual fds (add/remove reader/writer, make readable/"
    "writable, clear, remove+close an fd (scripted select then raises EBADF), a burst of 40..900 "
    "registration changes in one step (fills the real waker socket), run one loop callback, "
    "close; thread started before or during the program; 1/3 of the programs aimed at the EBADF path) x "
    "generated schedule of <=80 binary choices (then stay-on-thread or always-switch) x "
    "shutdown path (close / atexit hook / asyncgen aclose; 1/7 of the cases close before the loop's first "
    "iteration; in half of the cases the wrapped loop keeps running after the shutdown) x one-shot "
    "handlers and handlers that unregister other registrations of the same batch; 2/9 of the cases run TWO "
    "instances at once with interleaved programs; the real SelectorThread "
    "code runs on two real threads serialised by a baton scheduler; non-trivial = the schedule switches "
    "threads >=3 times between a registration change and the next select, or the shutdown lands while "
    "the selector thread is inside select or waiting on the condition; distinct = SHA-1 of the case"
)
ASSUMPTIONS = [
    "atomic steps are the intervals between instrumented points (condition acquire/wait/notify, select, "
    "call_soon_threadsafe, thread start/join, actor op boundaries); shared state is only touched under "
    "_select_cond (checked by the Probe) or is confined to one thread",
    "select() is level-triggered over harness-owned readiness flags; the waker socket pair is real and a "
    "byte sent on an AF_UNIX pair is immediately readable",
    "handlers consume the readiness they were dispatched for, so a fair completion reaches quiescence",
]
TECHNIQUE = "controlled-concurrency testing: baton scheduler with generated schedules over the real two-thread code, invariants checked at every step, plus a real-thread smoke test"
LEVEL_TEXT = (
    "500 generated (program, schedule) pairs per quick run (30 000 thorough), <=3 fds, <=15 actor ops; "
    "each run is deterministic and replayable.  Interleavings are sampled, not exhausted; pre-emption "
    "finer than the instrumented points is not modelled."
)
SHARDS = 16

FDS = [100, 101, 102]


class Shim:
    def __init__(self, real, **over):
        self.__dict__["_real"] = real
        self.__dict__.update(over)

    def __getattr__(self, name):
        return getattr(self._real, name)


class FakeLoop:
    """What SelectorThread needs from the wrapped loop; callbacks are run by the actor only."""

    def __init__(self, sched, env):
        self.sched = sched
        self.env = env
        self.queue = collections.deque()
        self.closed = False

    def call_soon(self, cb, *args, context=None):
        self.queue.append((cb, args, context))

    def call_soon_threadsafe(self, cb, *args, context=None):
        self.sched.point("call_soon_threadsafe")
        if self.closed:
            raise RuntimeError("Event loop is closed")
        self.queue.append((cb, args, context))

    def create_task(self, coro):
        try:
            coro.send(None)
        except StopIteration:
            return None
        raise HarnessError("thread manager coroutine awaited something")

    def run_one(self):
        if not self.queue:
            return False
        cb, args, context = self.queue.popleft()
        env = self.env
        round_ = None
        if getattr(cb, "__name__", "") == "_handle_select" and len(args) == 2 and env.probe is not None:
            # one select round is being delivered: remember which of its events belong to registrations
            # that exist now
            rs, ws = args
            round_ = (len(env.dispatches),
                      {fd for fd in rs if fd in env.readable and fd in env.probe._readers},
                      {fd for fd in ws if fd in env.writable and fd in env.probe._writers})
            if round_[1] & round_[2]:
                env.labels.add("round_with_read_and_write_event_of_one_fd")
        try:
            if context is not None:
                context.run(cb, *args)
            else:
                cb(*args)
        except HarnessError:
            raise
        except Exception as e:  # noqa: BLE001
            # asyncio would hand this to the loop's exception handler and go on; the harness's own
            # handlers never raise, so an exception here comes out of the code under test
            self.env.problem("C40.exception_in_loop_callback",
                             {"callback": getattr(cb, "__name__", repr(cb))[:60], "exception": repr(e)[:200]})
            round_ = None
        if round_ is not None:
            # Every event select() reported for a registration that is still there after the round must
            # have been dispatched in this round (order free).  This is the finite form of "not starved":
            # an event dropped whenever the fd's other direction is ready too is never delivered while
            # that other direction stays ready (a connected socket is practically always writable).
            start, pre_r, pre_w = round_
            done = set(env.dispatches[start:])
            missed = [("r", fd) for fd in sorted(pre_r) if fd in env.probe._readers and ("r", fd) not in done]
            missed += [("w", fd) for fd in sorted(pre_w) if fd in env.probe._writers and ("w", fd) not in done]
            if missed:
                env.problem("C40.reported_event_not_dispatched",
                            {"missed": missed, "round": {"rs": sorted(pre_r), "ws": sorted(pre_w)},
                             "dispatched_in_round": sorted(done)})
        return True


class WakerSendProxy:
    """Stands in for ``SelectorThread._waker_w`` (everything but ``send`` is forwarded).  The waker pair is
    real.  Its read side is only ever drained by ``_consume_waker`` on the loop thread, so a ``send`` that
    would *block* (blocking socket, buffer full) while the loop thread is the sender can never return.
    Instead of letting the harness hang in the kernel, such a send becomes a scheduler point that is ready
    only when the socket is writable: if nothing can make it writable the scheduler's ordinary
    no-runnable-thread rule reports the deadlock.  A non-blocking socket just raises BlockingIOError,
    which the code under test is expected to swallow."""

    def __init__(self, sock, sched, env):
        self.__dict__.update(_sock=sock, _sched=sched, _env=env)

    def _writable(self):
        try:
            return bool(real_select.select([], [self._sock], [], 0)[1])
        except (ValueError, OSError):
            return True

    def send(self, data, *args):
        if self._sock.getblocking() and not self._writable():
            self._env.labels.add("waker_send_would_block")
            self._sched.point("waker_send_blocked", self._writable)
        try:
            return self._sock.send(data, *args)
        except BlockingIOError:
            self._env.labels.add("waker_buffer_full")
            raise

    def __getattr__(self, name):
        return getattr(self._sock, name)

    def __setattr__(self, name, value):
        setattr(self._sock, name, value)


class Env:
    """Harness-side state of ONE SelectorThread instance (its virtual fds, readiness flags, handlers)."""

    def __init__(self, sched, fds=None, problems=None, labels=None, idx=0):
        self.sched = sched
        self.idx = idx
        self.fds = list(fds or FDS)
        self.readable = {fd: False for fd in self.fds}
        self.writable = {fd: False for fd in self.fds}
        self.oneshot = set()
        self.cross = []  # (src fd idx, "r"|"w", target fd idx, "r"|"w")
        self.closed = set()  # virtual fds closed by the actor (after removing them)
        self.ebadf = 0
        self.dispatches_after_ebadf = 0
        self.select_depth = 0
        self.max_select_depth = 0
        self.selects = 0
        self.dispatches = []
        self.problems = [] if problems is None else problems  # shared by all instances of a case
        self.probe = None
        self.last_change_switches = None
        self.labels = set() if labels is None else labels

    def problem(self, clause, detail):
        self.problems.append((clause, dict(detail, instance=self.idx)))

    # ---- scripted select (runs on whichever thread calls select.select in the module)
    def _poll(self, r, w):
        rs = []
        for fd in r:
            if isinstance(fd, int) and fd in self.readable:
                if self.readable[fd]:
                    rs.append(fd)
            else:
                try:
                    if real_select.select([fd], [], [], 0)[0]:
                        rs.append(fd)
                except (ValueError, OSError):
                    rs.append(fd)  # closed waker: a real select would fail/return; never block on it
        ws = [fd for fd in w if self.writable.get(fd, False)]
        return rs, ws

    def fake_select(self, r, w, x, timeout=None):
        if self.sched.is_actor():
            self.problem("C40.select_on_loop_thread", {})
        self.select_depth += 1
        self.max_select_depth = max(self.max_select_depth, self.select_depth)
        self.selects += 1
        if self.select_depth > 1:
            self.problem("C40.concurrent_selects", {"depth": self.select_depth})
        if self.last_change_switches is not None:
            if self.sched.switches - self.last_change_switches >= 3:
                self.labels.add("switches_ge3_between_change_and_select")
            self.last_change_switches = None
        r, w = list(r), list(w)
        try:
            # The call starts when the thread is scheduled past this point: like the real select it
            # fails with EBADF if one of the fds it was handed has been closed by then (the loop thread
            # may remove + close an fd after publishing the set and before the thread gets here).
            self.sched.point("select_enter")
            bad = [fd for fd in r + w if isinstance(fd, int) and fd in self.closed]
            if bad:
                self.ebadf += 1
                self.labels.add("ebadf_raised")
                raise OSError(errno.EBADF, "Bad file descriptor")
            self.sched.point("select", lambda: timeout == 0 or any(self._poll(r, w)))
            rs, ws = self._poll(r, w)
        finally:
            self.select_depth -= 1
        return rs, ws, []

    # ---- handlers (must run on the actor)
    def on_read(self, fd):
        self._dispatched("r", fd)
        self.readable[fd] = False
        if fd in self.oneshot:
            self.probe.remove_reader(fd)
        self._cross_remove("r", fd)

    def on_write(self, fd):
        self._dispatched("w", fd)
        self.writable[fd] = False
        if fd in self.oneshot:
            self.probe.remove_writer(fd)
        self._cross_remove("w", fd)

    def _cross_remove(self, kind, fd):
        """A handler that unregisters ANOTHER registration (another fd's, or its own fd's other
        direction) — possibly one whose event sits later in the very batch being dispatched."""
        for src, src_kind, tgt, tgt_kind in self.cross:
            if self.fds[src] == fd and src_kind == kind:
                removed = self.probe.remove_reader(self.fds[tgt]) if tgt_kind == "r" else self.probe.remove_writer(self.fds[tgt])
                if removed:
                    self.labels.add("handler_removed_other_registration")

    def _dispatched(self, kind, fd):
        self.dispatches.append((kind, fd))
        if self.ebadf:
            self.dispatches_after_ebadf += 1
        if not self.sched.is_actor():
            self.problem("C40.callback_off_loop_thread", {"kind": kind, "fd": fd, "thread": self.sched.name_of()})


class Probe(SelectorThread):
    """Lock-discipline probe: the two fields shared between the threads may only be touched under
    _select_cond once the selector thread exists."""

    def _chk(self, name, how):
        env = self.__dict__.get("_env")
        if env is None or self.__dict__.get("_thread") is None:
            return
        held = getattr(self._select_cond, "held_by_me", None)
        if held is None:
            # the condition in use is not one the harness could instrument (neither created through
            # threading.Condition() at construction nor a class attribute): report, never crash
            env.problem("C40.handoff_state_not_instrumented", {"field": name, "condition": repr(self._select_cond)[:80]})
        elif not held():
            env.problem("C40.unsynchronised_access", {"field": name, "how": how, "thread": env.sched.name_of()})

    @property
    def _select_args(self):
        self._chk("_select_args", "read")
        return self.__dict__.get("_sa")

    @_select_args.setter
    def _select_args(self, v):
        self._chk("_select_args", "write")
        self.__dict__["_sa"] = v

    @property
    def _closing_selector(self):
        self._chk("_closing_selector", "read")
        return self.__dict__.get("_cs", False)

    @_closing_selector.setter
    def _closing_selector(self, v):
        self._chk("_closing_selector", "write")
        self.__dict__["_cs"] = v


def thread_state(sched, t):
    """Where instance thread `t` is parked ('none' = not created or finished)."""
    if t is None or t.ident is None:
        return "none"
    st = sched.st.get(t.ident)
    if st is None or st["status"] == "finished":
        return "none"
    return st["label"] or "running"


def _drive(coro, what):
    try:
        coro.send(None)
    except StopIteration:
        return
    raise HarnessError("%s awaited something" % what)


class Unit:
    """One SelectorThread instance under test together with its fake loop and harness-side state."""

    def __init__(self, idx, sched, spec, problems, labels, n_units):
        self.idx, self.sched, self.spec, self.labels, self.n_units = idx, sched, spec, labels, n_units
        self.env = Env(sched, fds=[100 + 10 * idx + k for k in range(3)], problems=problems, labels=labels, idx=idx)
        self.env.oneshot = {self.env.fds[i] for i in spec["oneshot"]}
        self.env.cross = [tuple(r) for r in spec.get("cross", [])]
        self.loop = FakeLoop(sched, self.env)
        self.probe = None
        self.shut = False
        self.state_at_shutdown = None

    def construct(self):
        self.probe = Probe(self.loop)
        self.probe.__dict__["_env"] = self.env
        self.probe._waker_w = WakerSendProxy(self.probe._waker_w, self.sched, self.env)
        self.env.probe = self.probe

    def thread(self):
        return self.probe.__dict__.get("_thread") if self.probe is not None else None

    def do_op(self, op):
        env, probe, labels = self.env, self.probe, self.labels
        kind = op[0]
        if kind == "run":
            self.loop.run_one()
            return
        if kind == "park":
            # the loop thread is busy elsewhere / the loop is not running: no callback runs, the selector
            # threads go on until none of them can move (typically: parked waiting for the next snapshot)
            self.sched.fair = True
            try:
                for _ in range(400):
                    if not self.sched.others_ready():
                        break
                    self.sched.point("idle")
            finally:
                self.sched.fair = False
            labels.add("park")
            return
        fd = env.fds[op[1]]
        if kind in ("add_reader", "add_writer", "burst") and fd in env.closed:
            env.closed.discard(fd)  # the number is reused by a new descriptor
            env.readable[fd] = env.writable[fd] = False
        if fd in env.closed and kind in ("ready", "writable", "clear"):
            return  # no such descriptor
        if kind == "add_reader":
            probe.add_reader(fd, env.on_read, fd)
        elif kind == "add_writer":
            probe.add_writer(fd, env.on_write, fd)
        elif kind == "burst":
            # many registration changes inside ONE loop callback: the loop thread never gets to drain
            # the waker in between, so its socket buffer fills up (~280 bytes)
            for _ in range(op[2]):
                probe.add_reader(fd, env.on_read, fd)
            labels.add("burst")
        elif kind == "remove_close":
            # the documented order: unregister, then close (never close a registered fd)
            probe.remove_reader(fd)
            probe.remove_writer(fd)
            env.closed.add(fd)
            env.readable[fd] = env.writable[fd] = False
            labels.add("remove_close")
        elif kind == "remove_reader":
            probe.remove_reader(fd)
        elif kind == "remove_writer":
            probe.remove_writer(fd)
        elif kind == "ready":
            env.readable[fd] = True
        elif kind == "writable":
            env.writable[fd] = True
        elif kind == "clear":
            env.readable[fd] = False
            env.writable[fd] = False
        if kind.startswith(("add_", "remove_", "burst")):
            env.last_change_switches = self.sched.switches

    def quiescence_clause(self):
        env, probe, labels = self.env, self.probe, self.labels
        lost = [("r", fd) for fd in probe._readers if isinstance(fd, int) and env.readable[fd]]
        lost += [("w", fd) for fd in probe._writers if isinstance(fd, int) and env.writable[fd]]
        if lost:
            env.problem("C40.lost_event", {"registered_and_ready_at_quiescence": lost,
                                           "selector_thread_at": thread_state(self.sched, self.thread()),
                                           "dispatches": env.dispatches})
        labels.add("quiescence_checked")
        if env.dispatches:
            labels.add("dispatched")
        if len(env.dispatches) >= 2:
            labels.add("dispatched_ge2")
        if env.selects >= 3:
            labels.add("selects_ge3")
        if env.dispatches_after_ebadf:
            labels.add("dispatched_after_ebadf_recovery")

    def shutdown(self, settle_all, others_alive):
        """The instance's shutdown path + everything that must hold afterwards."""
        env, probe, labels, sched = self.env, self.probe, self.labels, self.sched
        self.shut = True
        self.state_at_shutdown = thread_state(sched, self.thread())
        if others_alive:
            labels.add("shutdown_while_other_instance_alive")
        how = self.spec["shutdown"]
        started = self.thread() is not None
        if how == "aclose" and not started:
            how = "close"
        if how == "atexit" and self.n_units > 1:
            how = "close"  # the atexit hook stops every instance at once; keep the instances independent
        labels.add("shutdown_" + how)
        if how == "close":
            probe.close()
        elif how == "atexit":
            pa._atexit_callback()
            if pa._selector_loops:
                env.problem("C40.atexit_left_loops", {})
            if started and not self.thread().finished:
                env.problem("C40.thread_alive_after_atexit", {})
            probe.close()
        else:
            _drive(probe._thread_manager_handle.aclose(), "aclose")
        if self.spec.get("run_loop_after_close"):
            # The SelectorThread was closed but the wrapped loop lives on (the class "can be attached to a
            # running asyncio loop", and its thread is created lazily by a call_soon'ed task): run
            # everything that is still queued — possibly the thread start itself — until nothing can move,
            # then shut the loop down the way asyncio does (shutdown_asyncgens -> aclose -> close(), a
            # no-op by now).
            labels.add("loop_run_after_close")
            had_thread = self.thread() is not None
            settle_all("loop after close")
            if not had_thread and self.thread() is not None:
                labels.add("thread_started_after_close")
            _drive(probe._thread_manager_handle.aclose(), "aclose")
        self.loop.closed = True
        self.loop.queue.clear()
        t = self.thread()
        if t is not None:
            if not t.finished:
                # nothing is runnable any more and the thread has not returned: it is parked for ever
                env.problem("C40.thread_alive_after_close", {"state": thread_state(sched, t),
                                                             "thread_started_after_close": "thread_started_after_close" in labels})
            else:
                real_threading.Thread.join(t, 60.0)
                if t.is_alive():
                    raise HarnessError("finished participant thread did not exit")
        if env.select_depth:
            env.problem("C40.select_in_progress_after_close", {})
        if probe._waker_r.fileno() != -1 or probe._waker_w.fileno() != -1:
            env.problem("C40.waker_not_closed", {})
        if probe in pa._selector_loops:
            env.problem("C40.still_in_atexit_set", {})
        before = (len(sched.trace), dict(probe._readers), dict(probe._writers), probe._closed)
        probe.close()
        after = (len(sched.trace), dict(probe._readers), dict(probe._writers), probe._closed)
        if before != after or not probe._closed:
            env.problem("C40.second_close_not_noop", {"before": repr(before), "after": repr(after)})

    def cleanup(self):
        probe = self.probe
        if probe is None:
            return
        t = self.thread()
        if t is not None:
            self.sched.drain_threads([t])
        probe.__dict__["_env"] = None
        probe._closed = True
        for s in (probe.__dict__.get("_waker_r"), probe.__dict__.get("_waker_w")):
            if s is not None:
                s.close()
        h = probe.__dict__.get("_thread_manager_handle")
        if h is not None:
            try:
                h.aclose().send(None)
            except (StopIteration, RuntimeError):
                pass


_REAL_CONDITION_TYPE = type(real_threading.Condition())


def run_sched_case(ctx, case):
    sched = Sched(case["schedule"], tail_policy=case["tail_policy"])
    problems, labels = [], set()
    specs = [{k: case.get(k) for k in ("program", "shutdown", "oneshot", "cross", "run_loop_after_close", "start_first")}]
    specs[0]["cross"] = specs[0]["cross"] or []
    if case.get("second"):
        specs.append(dict(case["second"]))
        labels.add("two_instances")
    units = [Unit(i, sched, spec, problems, labels, len(specs)) for i, spec in enumerate(specs)]

    def dispatch_select(r, w, x, timeout=None):
        """select.select of the module: route to the instance whose selector thread is calling."""
        cur = real_threading.current_thread()
        probe = getattr(getattr(cur, "_target", None), "__self__", None)
        env = probe.__dict__.get("_env") if isinstance(probe, SelectorThread) else None
        if env is None:
            if sched.is_actor():
                problems.append(("C40.select_on_loop_thread", {}))
            raise HarnessError("select.select called by a thread that belongs to no instance under test")
        return env.fake_select(r, w, x, timeout)

    saved = (pa.threading, pa.select, pa._selector_loops)
    pa.threading = Shim(real_threading, Thread=sched.Thread, Condition=sched.Condition)
    pa.select = Shim(real_select, select=dispatch_select)
    pa._selector_loops = set()
    # Hand-off state declared at CLASS level is created at import time, outside the shim: give it the same
    # instrumentation with the same sharing structure (one scheduler condition shared by all instances).
    class_level = {name: v for name, v in vars(SelectorThread).items() if isinstance(v, _REAL_CONDITION_TYPE)}
    for name in class_level:
        setattr(SelectorThread, name, sched.Condition())
        labels.add("class_level_condition_instrumented")
    phase = "construct"

    def settle_all(what):
        """Fair completion: pending callbacks of every live loop and the selector threads alternate until
        nothing can move."""
        sched.fair = True
        try:
            for _ in range(6000):
                if any(u.loop.run_one() for u in units if not u.loop.closed):
                    continue
                sched.point("idle")
                if not any(u.loop.queue for u in units if not u.loop.closed) and not sched.others_ready():
                    return
            raise HarnessError("%s did not reach quiescence" % what)
        finally:
            sched.fair = False

    try:
        try:
            for u in units:
                u.construct()  # all instances are alive at once
            if len(units) == 2 and units[0].probe._select_cond is units[1].probe._select_cond:
                labels.add("instances_share_one_condition")
            phase = "program"
            for u in units:
                if u.spec["start_first"]:
                    u.loop.run_one()  # "when the loop starts": the selector thread exists before the program
            its = [iter(u.spec["program"]) for u in units]
            active = [True] * len(units)
            choices = list(case.get("interleave") or [])
            turn = 0
            while any(active):
                pick = (choices.pop(0) if choices else turn) % len(units)
                turn += 1
                if not active[pick]:
                    pick = active.index(True)
                u = units[pick]
                op = next(its[pick], None)
                if op is None:
                    active[pick] = False
                    continue
                sched.point("op")
                if op[0] == "close":
                    active[pick] = False
                    phase = "shutdown"
                    u.shutdown(settle_all, others_alive=any(not v.shut for v in units if v is not u))
                    phase = "program"
                else:
                    u.do_op(op)
            remaining = [u for u in units if not u.shut]
            if remaining:
                # fair completion, then the no-lost-event clause for every instance still open
                phase = "completion"
                settle_all("fair completion")
                for u in remaining:
                    u.quiescence_clause()
                phase = "shutdown"
                if case.get("close_order") == "reversed":
                    remaining.reverse()
                for u in remaining:
                    u.shutdown(settle_all, others_alive=any(not v.shut for v in units if v is not u))
            phase = "after_shutdown"
        except Abort:
            if sched.deadlock is not None:
                problems.append(("C40.deadlock", {"phase": phase, "threads": sched.deadlock, "tail": sched.trace[-12:]}))
            elif not sched.thread_errors:
                raise HarnessError("scheduler aborted without a deadlock")
        if sched.thread_errors:
            problems.append(("C40.selector_thread_crashed", {"errors": sched.thread_errors, "phase": phase}))
    finally:
        # nothing may outlive the case
        sched.abort()
        try:
            for u in units:
                u.cleanup()
        finally:
            for name, v in class_level.items():
                setattr(SelectorThread, name, v)
            pa.threading, pa.select, pa._selector_loops = saved

    for u in units:
        if u.env.max_select_depth > 1 and not any(c == "C40.concurrent_selects" for c, _ in problems):
            u.env.problem("C40.concurrent_selects", {"depth": u.env.max_select_depth})
        st_ = u.state_at_shutdown
        if st_ in ("select", "select_enter"):
            labels.add("shutdown_while_in_select")
        elif st_ == "cond_wait":
            labels.add("shutdown_while_cond_wait")
        elif st_ == "none":
            labels.add("shutdown_before_thread_start")
        elif st_ is not None:
            labels.add("shutdown_while_" + st_)
    if sched.pos >= 3:
        labels.add("schedule_choices_ge3")
    nontrivial = bool(labels & {"switches_ge3_between_change_and_select", "shutdown_while_in_select", "shutdown_while_cond_wait"})
    ctx.note(case, labels, nontrivial)
    if problems:
        clause, detail = problems[0]
        detail = dict(detail, all_clauses=sorted({c for c, _ in problems}))
        ctx.fail(clause, detail)


# ----------------------------------------------------------------------------- real-thread smoke part
SMOKE_CAP_S = 60.0


def run_smoke_case(ctx, case):
    """Unpatched classes, real loop, socket pairs.  Order-independent oracle; a time cap is inconclusive."""
    real = asyncio.new_event_loop()
    loop = AddThreadSelectorEventLoop(real)
    pairs = [socket.socketpair() for _ in range(3)]
    for a, b in pairs:
        a.setblocking(False)
        b.setblocking(False)
    got = [bytearray() for _ in pairs]
    sent = [bytearray() for _ in pairs]
    registered = [False] * 3
    off_thread = []
    main_ident = real_threading.get_ident()

    def on_read(i):
        if real_threading.get_ident() != main_ident:
            off_thread.append(i)
        try:
            got[i] += pairs[i][0].recv(4096)
        except BlockingIOError:
            pass

    async def scenario():
        n = 0
        for op in case["program"]:
            kind, i = op[0], op[1]
            if kind == "add":
                loop.add_reader(pairs[i][0], on_read, i)
                registered[i] = True
            elif kind == "remove":
                loop.remove_reader(pairs[i][0])
                registered[i] = False
            elif kind == "write":
                n += 1
                data = bytes([65 + n % 26]) * op[2]
                pairs[i][1].send(data)
                sent[i] += data
            elif kind == "yield":
                for _ in range(op[2]):
                    await asyncio.sleep(0)
        # every byte written to a pair whose reader is (still) registered must arrive
        deadline = real.time() + SMOKE_CAP_S
        while any(registered[i] and len(got[i]) < len(sent[i]) for i in range(3)):
            if real.time() > deadline:
                raise HarnessError("smoke: data not delivered within %.0fs (inconclusive)" % SMOKE_CAP_S)
            await asyncio.sleep(0.001)

    try:
        real.run_until_complete(scenario())
        thread = loop._selector._thread
    finally:
        closer = real_threading.Thread(target=loop.close, daemon=True)
        closer.start()
        closer.join(SMOKE_CAP_S)
        hung = closer.is_alive()
        for a, b in pairs:
            a.close()
            b.close()
    if hung:
        raise HarnessError("smoke: close() did not return within %.0fs (inconclusive)" % SMOKE_CAP_S)
    if thread is not None and thread.is_alive():
        ctx.fail("C40.smoke_thread_alive_after_close", {})
    if off_thread:
        ctx.fail("C40.smoke_callback_off_loop_thread", {"fds": off_thread})
    for i in range(3):
        if registered[i] and bytes(got[i]) != bytes(sent[i]):
            ctx.fail("C40.smoke_data_mismatch", {"pair": i, "got": bytes(got[i]), "sent": bytes(sent[i])})
        if not bytes(sent[i]).startswith(bytes(got[i])):
            ctx.fail("C40.smoke_data_corrupt", {"pair": i, "got": bytes(got[i]), "sent": bytes(sent[i])})
    ctx.note(case, {"smoke"}, False)


# ----------------------------------------------------------------------------- generators
_fd = st.sampled_from([0, 0, 0, 0, 1, 2])


def _w(strategy, n):
    return [strategy.map(lambda x: x) for _ in range(n)]  # one_of de-duplicates identical objects


_op = st.one_of(
    *_w(st.tuples(st.just("run")), 3),
    st.tuples(st.just("park")),
    *_w(st.tuples(st.just("add_reader"), _fd), 3),
    *_w(st.tuples(st.just("ready"), _fd), 3),
    st.tuples(st.just("add_writer"), _fd),
    st.tuples(st.just("writable"), _fd),
    st.tuples(st.just("remove_reader"), _fd),
    st.tuples(st.just("remove_writer"), _fd),
    st.tuples(st.just("clear"), _fd),
    *_w(st.tuples(st.just("remove_close"), _fd), 2),
    st.tuples(st.just("burst"), _fd, st.sampled_from([40, 320, 500, 900])),
    st.tuples(st.just("close")),
)


@st.composite
def _ebadf_program(draw):
    """Aimed at the EBADF recovery path: fd a gets into a published set, is then removed and closed
    (possibly before the selector thread has entered select), while another fd b is (or becomes)
    registered and ready and must still be dispatched."""
    a = draw(st.sampled_from([0, 1]))
    b = 2 if draw(st.booleans()) else 1 - a
    runs = lambda lo, hi: [("run",)] * draw(st.integers(lo, hi))  # noqa: E731
    head = draw(st.lists(_op, max_size=2)) + [("add_reader", a)] + runs(1, 4)
    tail = draw(st.permutations([("add_reader", b), ("ready", b)] + runs(0, 2)))
    if draw(st.booleans()):
        body = [("remove_close", a)] + list(tail)
    else:
        k = draw(st.integers(0, len(tail)))
        body = list(tail[:k]) + [("remove_close", a)] + list(tail[k:])
    return head + body + draw(st.lists(_op, max_size=3))


_cross_rule = st.tuples(_fd, st.sampled_from(["r", "r", "w"]), _fd, st.sampled_from(["r", "r", "w"]))


@st.composite
def _cross_case(draw):
    """Aimed at 'a handler unregisters a registration whose event is later in the same select batch':
    two registrations become ready before the select that first contains them returns, their handlers
    remove each other (or the read handler removes its own fd's writer); a third registration c is made
    ready afterwards and must still be dispatched."""
    a, b, c = draw(st.permutations([0, 1, 2]))
    runs = lambda lo, hi: [("run",)] * draw(st.integers(lo, hi))  # noqa: E731
    if draw(st.booleans()):
        setup = [("ready", a), ("ready", b), ("add_reader", a), ("add_reader", b)]
        cross = [(a, "r", b, "r"), (b, "r", a, "r")]
    elif draw(st.booleans()):
        setup = [("ready", a), ("writable", a), ("add_reader", a), ("add_writer", a)]
        cross = [(a, "r", a, "w")] + ([(a, "w", a, "r")] if draw(st.booleans()) else [])
    else:
        # one fd registered for both directions and ready for both in one round; both stay registered
        setup = [("ready", a), ("writable", a), ("add_reader", a), ("add_writer", a)]
        cross = []
    program = list(draw(st.permutations(setup))) + runs(1, 4)
    program += list(draw(st.permutations([("add_reader", c), ("ready", c)] + runs(0, 2)))) + draw(st.lists(_op, max_size=3))
    return {
        "program": program,
        "start_first": draw(st.booleans()),
        "tail_policy": draw(st.sampled_from(["stay", "switch"])),
        "schedule": draw(st.lists(st.integers(0, 1), max_size=60)),
        "shutdown": draw(st.sampled_from(["close", "atexit", "aclose"])),
        "oneshot": [],
        "cross": cross + draw(st.lists(_cross_rule, max_size=1)),
        "run_loop_after_close": draw(st.booleans()),
    }


_no_run_op = st.one_of(
    *_w(st.tuples(st.just("add_reader"), _fd), 3),
    st.tuples(st.just("add_writer"), _fd),
    st.tuples(st.just("ready"), _fd),
    st.tuples(st.just("remove_reader"), _fd),
)
# close() before the wrapped loop has run for the first time (the selector thread does not exist yet):
# immediately after construction, or after some registrations; the loop runs afterwards.
_early_close_program = st.lists(_no_run_op, max_size=3).map(lambda ops: list(ops) + [("close",)])

_general_case_s = st.fixed_dictionaries({
    "program": st.one_of(st.lists(_op, min_size=2, max_size=15), st.lists(_op, min_size=2, max_size=15).map(list),
                         _ebadf_program()),
    "start_first": st.booleans(),
    "tail_policy": st.sampled_from(["stay", "switch"]),
    "schedule": st.lists(st.integers(0, 1), max_size=80),
    "shutdown": st.sampled_from(["close", "close", "atexit", "aclose"]),
    "oneshot": st.lists(_fd, max_size=2, unique=True),
    "cross": st.one_of(st.just([]), st.just([]), st.lists(_cross_rule, min_size=1, max_size=3)),
    "run_loop_after_close": st.booleans(),
})
_early_close_case_s = st.fixed_dictionaries({
    "program": _early_close_program,
    "start_first": st.just(False),
    "tail_policy": st.sampled_from(["stay", "switch"]),
    "schedule": st.lists(st.integers(0, 1), max_size=30),
    "shutdown": st.sampled_from(["close", "close", "atexit"]),
    "oneshot": st.just([]),
    "run_loop_after_close": st.just(True),
})
_instance_spec = st.fixed_dictionaries({
    "program": st.lists(_op, min_size=1, max_size=9),
    "start_first": st.booleans(),
    "shutdown": st.sampled_from(["close", "close", "aclose"]),
    "oneshot": st.lists(_fd, max_size=1, unique=True),
    "cross": st.just([]),
    "run_loop_after_close": st.booleans(),
})


@st.composite
def _two_instance_case(draw):
    """Two SelectorThread instances alive at once: their programs are interleaved by generated choices on
    the same loop thread (the actor), each is shut down where its own program says `close` (while the
    other one is still alive) or after the common fair completion, in either order.  Every clause is
    evaluated per instance, exactly as for a single one."""
    first, second = draw(_instance_spec), draw(_instance_spec)
    case = dict(first)
    case.update({
        "second": second,
        "interleave": draw(st.lists(st.integers(0, 1), max_size=20)),
        "close_order": draw(st.sampled_from(["forward", "reversed"])),
        "tail_policy": draw(st.sampled_from(["stay", "switch"])),
        "schedule": draw(st.lists(st.integers(0, 2), max_size=80)),
    })
    return case


@st.composite
def _two_instance_parked_case(draw):
    """Aimed at state shared between instances: both selector threads exist and have settled into select;
    then, while the loop is idle (no callback runs), a registration change on each instance wakes its
    thread, which reports and parks waiting for the next snapshot — both threads are parked at the same
    time, in either order.  What follows is meant for ONE of them: its close(), or its pending callback
    (new snapshot) followed by readiness that must still be dispatched."""
    runs = lambda lo, hi: [("run",)] * draw(st.integers(lo, hi))  # noqa: E731
    fds = [draw(_fd), draw(_fd)]
    first_parked = draw(st.integers(0, 1))
    order = [first_parked, 1 - first_parked]
    target = draw(st.integers(0, 1))  # the instance the next wake-up is meant for
    progs = [[], []]
    seq = []  # which instance performs the next op
    for i in (0, 1):
        n = draw(st.integers(2, 3))
        progs[i] += [("run",)] * n
        seq += [i] * n
    progs[0].append(("park",))
    seq.append(0)
    for i in order:
        progs[i] += [("add_reader", fds[i]), ("park",)]
        seq += [i, i]
    if draw(st.booleans()):
        progs[target].append(("close",))
        seq.append(target)
    else:
        tail = [("run",), ("park",), ("ready", fds[target])] + runs(0, 2)
        progs[target] += tail
        seq += [target] * len(tail)
    for i in (0, 1):
        extra = draw(st.lists(_op, max_size=2))
        progs[i] += extra
        seq += [i] * len(extra)
    spec = lambda i: {"program": progs[i], "start_first": True, "shutdown": draw(st.sampled_from(["close", "close", "aclose"])),  # noqa: E731
                      "oneshot": [], "cross": [], "run_loop_after_close": draw(st.booleans())}
    case = spec(0)
    case.update({
        "second": spec(1),
        "interleave": seq,
        "close_order": draw(st.sampled_from(["forward", "reversed"])),
        "tail_policy": draw(st.sampled_from(["stay", "switch"])),
        "schedule": draw(st.lists(st.integers(0, 2), max_size=8)),
    })
    return case


sched_case_s = st.one_of(*_w(_general_case_s, 5), _early_close_case_s, _cross_case(), _two_instance_case(),
                         _two_instance_parked_case())

_smoke_op = st.one_of(
    st.tuples(st.just("add"), _fd),
    st.tuples(st.just("add"), _fd),
    st.tuples(st.just("remove"), _fd),
    st.tuples(st.just("write"), _fd, st.integers(1, 64)),
    st.tuples(st.just("write"), _fd, st.integers(1, 64)),
    st.tuples(st.just("yield"), st.just(0), st.integers(1, 3)),
)
smoke_case_s = st.fixed_dictionaries({"program": st.lists(_smoke_op, max_size=12)})

def rw_same_fd_cases():
    """Deterministic family: ONE fd registered as reader and writer and ready for both in the same select
    round, both registrations kept (plus a second fd ready for reading only); every order of the four
    set-up operations x thread started before/after x both schedule tails x two shutdown paths."""
    import itertools
    setup = [("ready", 0), ("writable", 0), ("add_reader", 0), ("add_writer", 0)]
    for perm in itertools.permutations(setup):
        for start_first in (False, True):
            for tail in ("stay", "switch"):
                for extra in ([], [("add_reader", 1), ("ready", 1)]):
                    program = extra[:1] + list(perm) + extra[1:] + [("run",), ("park",), ("run",), ("run",),
                                                                     ("ready", 0), ("writable", 0), ("park",), ("run",)]
                    yield {"program": program, "start_first": start_first, "tail_policy": tail, "schedule": [],
                           "shutdown": "close" if tail == "stay" else "aclose", "oneshot": [], "cross": [],
                           "run_loop_after_close": False}


PARTS = {"sched": run_sched_case, "rw_same_fd": run_sched_case, "smoke": run_smoke_case}


def main(ctx):
    ctx.run_replays(PARTS)
    ctx.enumerate(rw_same_fd_cases(), run_sched_case, name="rw_same_fd", exhaustive=False)
    ctx.explore(sched_case_s, run_sched_case, ctx.n(500, 30000), name="sched")
    if ctx.violations:
        return  # already decided; an inconclusive (exit 2) smoke run must not mask the violation
    ctx.explore(smoke_case_s, run_smoke_case, ctx.n(25, 1600), name="smoke")
