"""C39 — PeriodicCallback stays on its grid, skips missed periods, never overlaps.

Domain: period (float milliseconds with awkward mantissas from 1 microsecond to 1e7 ms, or a
timedelta), start time at epoch scale (1e9..4e9) or small scale, jitter 0 / 0.1 / 1.0 with
``tornado.ioloop.random`` replaced by a case-supplied sequence, callback kind (plain, raising,
coroutine, raising coroutine) in a generated *form* (async def, @gen.coroutine, functools.partial of either, lambda
returning a coroutine object / tornado Future / Task, callable object with async __call__, plain function returning an
awaitable; plain / partial / lambda for synchronous callbacks), and a program of per-run actions that are *clock readings*: how late
the loop fires the timer, how far the callback moves the virtual clock before returning (0, 0.3p,
p-ulp, p, p+ulp, 2.5p, 1000p, an arbitrary factor, or *backwards* by one ulp / p/2 / 100p), how the
clock moves while a coroutine invocation is in flight, stop() inside the callback / while the
coroutine is running / between runs / from a *separate timer or add_callback due at exactly the same
virtual instant as the periodic deadline* (registered before or after the periodic timer, so stop() lands
before the handle fires or between the handle firing and _run's first step), and start() again - either well after the old chain's next deadline or *soon* (0.3 P later, before it), always
after the stopped invocation has completed.  Runs on the virtual loop; the observation is
every deadline PeriodicCallback passes to ``io_loop.add_timeout`` (wrapped on the harness-owned loop
instance) together with ``io_loop.time()`` at that moment, and the callback start/end trace.

Oracle (exact rationals, fractions.Fraction of the same floats; P = period in seconds):
  later     d_k > d_{k-1} (d_{-1} = the time of start())
  grid      without jitter d_k - d_{k-1} = n*P for an integer n >= 1 within 2 ulp(d_k) + 4 n P 2^-52
            (asserted only where that tolerance is below P/2)
  not_past  d_k >= now - tol,   tol = 4 ulp(max(|now|,|d_k|)) + 4 P 2^-52
  one_period  while the clock has not moved backwards since start(): d_k <= now + P (1 + jitter/2) + tol
  count     without jitter/backwards: the n-th callback start happens no earlier than start + n P (no bunching)
  run_time  a callback start is never before the most recently scheduled deadline (minus tol)
  overlap   a callback never starts while the previous (coroutine) invocation is in flight
  stop      no callback start after stop() returned, whatever is still pending
  invoked   every fired periodic timer leads to exactly one callback invocation, unless stop() came before _run's first step
  one_timer at most one timer of the PeriodicCallback is armed (scheduled, not cancelled, not fired) at any time
Excluded (not generated): start() while a coroutine invocation is still in flight, while a fired-but-not-yet-
started _run is pending (same-instant stop()+start() restarts only when the timer had not fired yet), or without a
preceding stop() (two timers are armed; the statement speaks about stop orderings only).

Corrections: "no run after stop" compared the harness's stop flag with the moment the callback BODY started; for
hand-over forms where calling the callback runs no harness code the body may start after a stop() that came after the
call (an implementation that calls the callback directly from the timer).  The clause now uses the recorded event order
and tolerates exactly one start observed after stop() when stop() came while a fired timer's invocation had not been
observed yet (those forms only); the invoked-exactly-once accounting accepts the same range.

Sensitivity (quick tier, seed 1, one textual mutation at a time on a scratch copy):
  * _update_next: `floor(...) + 1` -> `floor(...)` (DESIGN)                     -> caught (C39.not_later_than_previous; the
    wrapper's runaway cap keeps the case finite)
  * _update_next: else-branch (clock went backwards) adds nothing (DESIGN)      -> caught (C39.not_later_than_previous)
  * _run: `_schedule_next()` before awaiting the coroutine (DESIGN)             -> caught (C39.run_before_scheduled_time / overlap)
  * stop(): timeout not removed (DESIGN, "stop not clearing _timeout")          -> caught after a restart (C39.run_before_scheduled_time)
  * stop(): timeout not removed AND `_run` without the `_running` guard         -> caught (C39.run_after_stop)
  * `_run` without the `if not self._running: return` guard alone               -> caught (C39.run_after_stop, seeds 1-3) since the
    same-instant stop was added: a separate timer / add_callback at exactly the periodic deadline calls stop() after the
    loop has fired the periodic handle (remove_timeout is then a no-op) but before _run's first step.  (Earlier version
    of this check missed it and wrongly called the mutant equivalent.)
  * `_schedule_next` without its `if self._running` guard (a stop() during a run leaves a stale armed timer that
    `_run`'s own guard normally swallows)                                         -> caught at seeds 1-3 (C39.two_timers_armed;
    also run_before_scheduled_time / bunched_runs) since the "_soon" restarts were added: stop() inside the callback /
    while the coroutine runs / from a same-instant timer, the invocation COMPLETES, then start() 0.3 P later, i.e.
    before the old chain's next deadline.  Earlier version: missed (it always idled 3.5 P before restarting, so the
    stale timer had fired and been swallowed).
  * coroutine-ness decided ONCE in __init__ (iscoroutinefunction / gen.is_coroutine_function) and `_run` awaits the
    return value only if that flag is set, instead of `isawaitable(val)` per run   -> caught at seeds 1-3 (C39.overlap for
    forms whose body starts at the call - partial/lambda of a @gen.coroutine function, a function returning a Task or an
    already-begun coroutine; C39.callback_not_invoked for forms returning a bare coroutine object that is then never
    awaited - functools.partial of an async def, lambda, callable object with async __call__) since the callback FORM
    became a generated dimension and the "every fired timer => exactly one invocation unless stop() came first"
    accounting was added.  Earlier version: missed (only `async def` handed over directly).
  * seeded C39-8 (round 8): double re-arm after a raising callback                 -> caught at seed 1 (C39.two_timers_armed)
  * jitter one-sided: `1 + jitter * random()`                                   -> caught (C39.more_than_one_period_ahead)
  * no skipping: always `_next_timeout += period`                               -> caught (C39.before_current_time)
  * measured from now: `_next_timeout = now + period`                           -> caught (C39.off_grid)
  * timedelta period divided by seconds instead of milliseconds                 -> caught (C39.not_later_than_previous / off_grid)
"""
import asyncio
import datetime
import functools
import math
from fractions import Fraction

from hypothesis import strategies as st

import tornado.ioloop
from tornado import gen
from tornado.concurrent import Future
from tornado.ioloop import IOLoop, PeriodicCallback

from vlib import vtime
from vlib.loopkit import Logs

PROPERTY = "C39"
READY = True
RULE = (
    "Hypothesis cases: period from a pool of awkward floats (1us..1e7 ms, 0.1, 1/3, powers of two, timedelta) or a drawn "
    "float; start in {epoch-scale floats 1e9..4e9, small scale}; jitter in {0, 0.1, 1.0} with supplied random values; "
    "callback kind in {plain, raising, coro, coro_raising} x hand-over form (9 asynchronous, 3 synchronous forms); 1..30 per-run actions (loop lateness, in-callback clock move "
    "incl. backwards, in-flight clock chunks, stop inside/while running/between runs/from a same-instant timer or add_callback, restart). non-trivial = a stall "
    "> P or a backwards move occurred, or P < 10 us at epoch scale; distinct = SHA-1 of the case"
)
ASSUMPTIONS = [
    "rounding tolerance as stated in the module docstring (a few ulps of the clock value plus a 2^-52-relative term)",
    "start <= 4e9 so that a 1 us period is >= 2 ulps of the clock",
    "start() is called only when stopped and no invocation is in flight",
    "the rational oracle is applied to generated floats; it is not a proof over all rationals",
]
TECHNIQUE = "property-based testing (Hypothesis) with an exact-rational oracle on a virtual clock"
LEVEL_TEXT = "sampled periods / start times / clock sequences; bounded to 30 actions (plus restarts) per case"
SHARDS = 16

CAP = 150


class CbError(Exception):
    pass


class _Rand:
    def __init__(self, seq):
        self.seq = list(seq) or [0.5]
        self.i = 0

    def random(self):
        v = self.seq[self.i % len(self.seq)]
        self.i += 1
        return v


def _ulp(x):
    return Fraction(math.ulp(float(x)))


class Rec:
    def __init__(self):
        self.sched = []     # dicts: d, now, back, epoch
        self.starts = []    # dicts: t, epoch, n (index within epoch)
        self.failures = []
        self.labels = set()
        self.stopped = False
        self.back = False
        self.epoch = 0
        self.epoch_start = []
        self.inflight = False
        self.gate = None
        self.runaway = False
        self.dispatch_pending = False
        self.armed = []
        self.fired = 0
        self.excused = 0
        self.excuse_given = False
        self.stop_while_pending = False
        self.tolerated = 0
        self.seq = 0
        self.stop_seq = 0

    def fail(self, clause, detail):
        self.failures.append((clause, detail))


def _period_arg(period):
    if period[0] == "td":
        return datetime.timedelta(microseconds=period[1])
    return period[1]


def _period_ms(period):
    """callback_time in milliseconds as the constructor documents it."""
    if period[0] == "td":
        return Fraction(period[1], 1000)
    return Fraction(period[1])


def _amount(code, p, base):
    """Target clock value for a move described by `code`, relative to `base` (a clock reading)."""
    if isinstance(code, tuple):  # ("f", factor)
        return base + code[1] * p
    if code == "0":
        return base
    if code == "p-ulp":
        return math.nextafter(base + p, -math.inf)
    if code == "p":
        return base + p
    if code == "p+ulp":
        return math.nextafter(base + p, math.inf)
    if code == "back_tiny":
        return math.nextafter(base, -math.inf)
    if code == "back_half":
        return base - 0.5 * p
    if code == "back_100":
        return base - 100 * p
    return base + float(code) * p


async def _scn(case, rec):
    loop = asyncio.get_running_loop()
    io = IOLoop.current()
    P = _period_ms(case["period"]) / 1000
    p = float(P)
    kind = case["kind"]
    acts = case["acts"]
    jitter = case["jitter"]
    orig_add = io.add_timeout
    # guard against endless rescheduling; every 100-period backwards jump of the clock legitimately adds about a
    # hundred runs before the clock is back where a harness timer waits (found by the coverage-guided shard: two
    # such jumps in one case exceeded a fixed cap of 150 on the clean tree)
    cap = CAP + 110 * sum(1 for a in acts if len(a) > 1 and a[1] == "back_100")
    rec.cap = cap

    def add_timeout(deadline, callback, *a, **kw):
        rec.sched.append({"d": deadline, "now": io.time(), "back": rec.back, "epoch": rec.epoch})
        if len(rec.sched) > cap:
            if not rec.runaway:
                rec.runaway = True
                rec.fail("C39.runaway_rescheduling", {"n": len(rec.sched)})
            return orig_add(io.time() + 1e12, lambda: None)
        same = act_for(len(rec.starts))[6]  # action of the run this deadline is for

        slot = {"h": None, "fired": False}

        def dispatched():
            # the loop has fired the periodic timer; PeriodicCallback._run is a coroutine whose first step
            # only executes on the next loop iteration
            rec.dispatch_pending = True
            rec.excuse_given = False
            rec.fired += 1
            slot["fired"] = True
            return callback()

        def armed(h):
            # at most one timer of the PeriodicCallback may be armed (scheduled, not cancelled, not fired) at any time
            slot["h"] = h
            rec.armed.append(slot)
            live = [x for x in rec.armed if not x["fired"] and not x["h"].cancelled()]
            rec.armed[:] = live
            if len(live) > 1:
                rec.fail("C39.two_timers_armed", {"now": io.time(), "deadline": deadline, "armed": len(live)})
            return h

        if same == "none":
            return armed(orig_add(deadline, dispatched, *a, **kw))
        epoch = rec.epoch
        restart = same.endswith("_start")

        def stopper():
            if rec.stopped or rec.runaway or rec.epoch != epoch:
                return
            rec.labels.add("same_instant_stop")
            if rec.dispatch_pending:
                rec.labels.add("same_instant_stop_after_dispatch")
            racing = rec.dispatch_pending
            stop()
            # stop()+start(): only where it is well defined (timer not yet fired / nothing in flight);
            # restarting while a dispatched _run is pending is the excluded restart-in-flight class
            if restart and not racing and not rec.inflight:
                rec.epoch += 1
                rec.labels.add("same_instant_restart")
                start()

        def helper():
            io.add_callback(stopper)  # runs on the next iteration, like _run's first step

        other = helper if same.startswith("cb_") else stopper
        if "_before" in same:
            orig_add(deadline, other)  # same deadline, same conversion => identical asyncio `when`
            return armed(orig_add(deadline, dispatched, *a, **kw))
        h = armed(orig_add(deadline, dispatched, *a, **kw))
        orig_add(deadline, other)
        return h

    io.add_timeout = add_timeout

    def move_clock(target):
        if target < loop._now:
            rec.back = True
            rec.labels.add("clock_backwards")
        loop._now = target

    def on_start():
        t = loop.time()
        n = sum(1 for s in rec.starts if s["epoch"] == rec.epoch)
        rec.starts.append({"t": t, "epoch": rec.epoch, "n": n, "back": rec.back})
        rec.dispatch_pending = False
        rec.seq += 1
        if rec.stopped:
            # Real event order, not timestamps: a violation only if this invocation STARTS after a stop() call returned
            # (and before a later start()).  For hand-over forms whose call executes no harness code (async def, its
            # partial, a lambda returning the bare coroutine object, an object with async __call__) the harness only
            # sees the body start, which may lie after the call; if stop() came while a fired timer's invocation had not
            # been observed yet, that one invocation may have been made before stop() and is not counted.
            if late_form and rec.stop_while_pending:
                rec.stop_while_pending = False
                rec.tolerated += 1
                rec.labels.add("start_observed_after_stop_tolerated")
            else:
                rec.fail("C39.run_after_stop", {"t": t, "stop_seq": rec.stop_seq, "start_seq": rec.seq})
        if rec.inflight:
            rec.fail("C39.overlap", {"t": t})
        if rec.sched:
            d = rec.sched[-1]["d"]
            # the loop converts the absolute deadline to a delay and back (call_at -> call_later), which
            # rounds at the magnitude of the clock reading at scheduling time as well
            if Fraction(t) < Fraction(d) - 4 * _ulp(max(abs(t), abs(d), abs(rec.sched[-1]["now"]))):
                rec.fail("C39.run_before_scheduled_time", {"t": t, "scheduled": d})
        return len(rec.starts) - 1

    def act_for(k):
        return acts[k] if k < len(acts) else ("none", "0", True, (), False, "none", "none")

    def plain_cb():
        k = on_start()
        pre, delay, stop_inside, chunks, stop_running, post, _same = act_for(k)
        base = loop.time()
        move_clock(_amount(delay, p, base))
        if loop.time() - base > p:
            rec.labels.add("stall_over_one_period")
        if loop.time() - base >= 2.5 * p:
            rec.labels.add("stall_many_periods")
        if stop_inside:
            pc.stop()
            rec.stopped = True
            rec.labels.add("stop_inside_callback")
        if kind == "raising":
            rec.labels.add("raising_callback")
            raise CbError("cb%d" % k)

    # An asynchronous invocation = begin() (recorded as the callback start; the invocation is "in flight" from here)
    # followed by wait_end() (finishes when the harness opens the gate).  The FORM in which this reaches
    # PeriodicCallback varies; only the value returned by calling the callback tells that it must be awaited.
    def begin():
        k = on_start()
        rec.inflight = True
        rec.gate = Future()
        return k, rec.gate

    def ended(k):
        rec.inflight = False
        if kind == "coro_raising":
            rec.labels.add("raising_callback")
            raise CbError("cb%d" % k)

    async def wait_end(k, gate):
        try:
            await gate
        finally:
            rec.inflight = False
        ended(k)

    async def coro_cb(*_a):
        k, gate = begin()
        await wait_end(k, gate)

    @gen.coroutine
    def gen_cb(*_a):
        k, gate = begin()
        try:
            yield gate
        finally:
            rec.inflight = False
        ended(k)

    class CallableObj:
        async def __call__(self):
            k, gate = begin()
            await wait_end(k, gate)

    def sync_returning_coroutine():
        k, gate = begin()
        return wait_end(k, gate)

    def sync_returning_task():
        k, gate = begin()
        return asyncio.ensure_future(wait_end(k, gate))

    coro_forms = {
        "async_def": coro_cb,
        "gen_coroutine": gen_cb,
        "partial_async": functools.partial(coro_cb, 1),
        "partial_gen": functools.partial(gen_cb, 1),
        "lambda_coro": lambda: coro_cb(),          # returns a coroutine object
        "lambda_gen_future": lambda: gen_cb(),     # returns a tornado Future
        "lambda_task": lambda: sync_returning_task(),
        "callable_obj": CallableObj(),
        "sync_returns_coroutine": sync_returning_coroutine,
    }
    plain_forms = {"plain": plain_cb, "partial_plain": functools.partial(plain_cb), "lambda_plain": lambda: plain_cb()}
    is_coro = kind.startswith("coro")
    form = case.get("cform", "async_def") if is_coro else case.get("pform", "plain")
    rec.labels.add("form." + form)
    late_form = is_coro and form in ("async_def", "partial_async", "lambda_coro", "callable_obj")
    pc = PeriodicCallback((coro_forms if is_coro else plain_forms)[form], _period_arg(case["period"]), jitter)

    def start():
        rec.stopped = False
        rec.stop_while_pending = False
        rec.back = False
        rec.dispatch_pending = False
        rec.epoch_start.append(loop.time())
        pc.start()

    def stop():
        if rec.dispatch_pending and not rec.excuse_given:
            # the timer has fired but no invocation has been observed yet: stop() may legitimately prevent it
            rec.excuse_given = True
            rec.excused += 1
            rec.stop_while_pending = True
        pc.stop()
        rec.seq += 1
        rec.stop_seq = rec.seq  # stop() has returned
        rec.stopped = True

    start()
    try:
        for k in range(len(acts) + 1):
            pre, delay, stop_inside, chunks, stop_running, post, _same = act_for(len(rec.starts))
            nt = loop.next_timer()
            if nt is None or rec.stopped or rec.runaway:
                break
            if pre == "backwait":
                move_clock(loop.time() - 0.5 * p)
                await vtime.settle()
                await vtime.advance(to=nt)
            elif pre.startswith("late"):
                rec.labels.add("late_loop")
                await vtime.settle()
                loop._now = max(loop._now, nt + float(pre[4:]) * p)
                if float(pre[4:]) >= 2.5:
                    rec.labels.add("stall_many_periods")
                if float(pre[4:]) > 1:
                    rec.labels.add("stall_over_one_period")
                await vtime.settle()
            else:
                await vtime.advance(to=nt)
            if is_coro and rec.inflight:
                t0 = loop.time()
                for ch in chunks:
                    loop._now = _amount(ch, p, loop._now)
                    await vtime.settle()
                if loop.time() - t0 > p:
                    rec.labels.add("coroutine_overruns")
                    rec.labels.add("stall_over_one_period")
                if loop.time() - t0 >= 2.5 * p:
                    rec.labels.add("stall_many_periods")
                if stop_running:
                    stop()
                    rec.labels.add("stop_while_running")
                    loop._now += 2.5 * p
                    await vtime.settle()
                rec.gate.set_result(None)
                await vtime.settle()
            if post in ("stop", "stop_start", "stop_start_soon") or (rec.stopped and post in ("start", "start_soon")):
                was_stopped_during_run = rec.stopped
                if not rec.stopped:
                    stop()
                    rec.labels.add("stop_between_runs")
                # "_soon": start() again at a later instant that is still BEFORE the deadline the stopped chain
                # would have had next (any timer it left armed has not fired yet); otherwise idle well past it
                soon = post.endswith("_soon")
                loop._now += (0.3 if soon else 3.5) * p
                await vtime.settle()
                if post != "stop" and not rec.inflight:
                    rec.epoch += 1
                    rec.labels.add("restart")
                    if soon:
                        rec.labels.add("restart_before_old_deadline")
                        if was_stopped_during_run:
                            rec.labels.add("stop_during_run_then_restart_soon")
                    start()
    finally:
        if not rec.stopped:
            stop()
        if rec.gate is not None and not rec.gate.done():
            rec.gate.set_result(None)
        await vtime.settle()
        loop._now += 5 * p
        await vtime.settle()
        pc.stop()
        del io.add_timeout
    # every fired periodic timer leads to exactly one invocation of the callback, unless stop() came first
    lo = rec.fired - rec.excused
    hi = lo + rec.tolerated  # late-observed forms: an invocation made before stop() but seen after it
    if not rec.runaway and not (lo <= len(rec.starts) <= hi):
        rec.fail("C39.callback_not_invoked" if len(rec.starts) < lo else "C39.extra_invocation",
                 {"timers_fired": rec.fired, "stopped_before_invocation_seen": rec.excused, "tolerated": rec.tolerated,
                  "callback_starts": len(rec.starts)})
    return rec


def _analyse(case, rec):
    P = _period_ms(case["period"]) / 1000
    jitter = Fraction(case["jitter"])
    rel = P * Fraction(1, 2 ** 52)
    prev = {}
    for idx, r in enumerate(rec.sched[:getattr(rec, "cap", CAP)]):
        e = r["epoch"]
        d, now = Fraction(r["d"]), Fraction(r["now"])
        u = _ulp(max(abs(r["d"]), abs(r["now"])))
        tol = 4 * u + 4 * rel
        first = e not in prev
        dprev = Fraction(rec.epoch_start[e]) if first else prev[e]
        info = {"k": idx, "d": r["d"], "now": r["now"], "prev": float(dprev), "period_s": float(P)}
        if not d > dprev:
            rec.fail("C39.not_later_than_previous", info)
        if not jitter:
            delta = d - dprev
            n = round(delta / P)
            tg = 2 * _ulp(r["d"]) + 4 * max(n, 1) * rel
            if tg < P / 2:
                if n < 1 or abs(delta - n * P) > tg:
                    rec.fail("C39.off_grid", dict(info, periods=float(delta / P)))
            else:
                rec.labels.add("grid_vacuous")
        if d < now - tol:
            rec.fail("C39.before_current_time", info)
        if not r["back"]:
            if d > now + P * (1 + jitter / 2) + tol:
                rec.fail("C39.more_than_one_period_ahead", dict(info, ahead_periods=float((d - now) / P)))
        prev[e] = d
    if not jitter:
        for s in rec.starts:
            if s["back"]:
                continue
            t0 = Fraction(rec.epoch_start[s["epoch"]])
            t = Fraction(s["t"])
            n = s["n"] + 1  # the n-th start of this epoch cannot come before t0 + n*P
            slack = (n + 4) * _ulp(max(abs(s["t"]), 1.0)) + 4 * n * P * Fraction(1, 2 ** 52)
            if t < t0 + n * P - slack:
                rec.fail("C39.bunched_runs", {"start_index": s["n"], "t": s["t"], "epoch_start": float(t0), "period_s": float(P)})


def run_case(ctx, case):
    rec = Rec()
    saved = tornado.ioloop.random
    tornado.ioloop.random = _Rand(case["rand"])
    try:
        with Logs() as logs:
            vtime.run(_scn, case, rec, start=case["start"])
    finally:
        tornado.ioloop.random = saved
    _analyse(case, rec)
    P = float(_period_ms(case["period"]) / 1000)
    unexpected = [r for r in logs.records if r[1] >= 40 and not isinstance(r[4], CbError)]
    if unexpected:
        rec.fail("C39.internal_error_logged", {"records": [(r[0], r[2][:200], repr(r[4])) for r in unexpected[:3]]})
    labels = rec.labels
    if case["jitter"]:
        labels.add("jitter")
    if case["period"][0] == "td":
        labels.add("timedelta_period")
    tiny = P < 10e-6 and case["start"] >= 1e9
    if tiny:
        labels.add("tiny_period_epoch")
    if case["start"] >= 1e9:
        labels.add("epoch_scale")
    labels.add("kind." + case["kind"])
    for clause, detail in rec.failures[:1]:
        ctx.fail(clause, dict(detail, case=case))
    nontrivial = bool({"stall_over_one_period", "clock_backwards"} & labels) or tiny
    ctx.note(case, labels, nontrivial)


# --------------------------------------------------------------------------- strategies
PERIOD_POOL = [0.001, 0.0015, 0.002, 0.01, 0.1, 1 / 3, 0.5, 1.0, 1.0000000000000002, 3.0, 10.0, 16.666666666666668, 33.3,
               100.0, 1000.0, 1000 / 3, 1024.0, 0.0009765625 * 2, 0.125, 60000.0, 86400000.0 / 7, 1e7, 9999999.999999998]
PERIOD = st.one_of(
    st.tuples(st.just("ms"), st.sampled_from(PERIOD_POOL)),
    st.tuples(st.just("ms"), st.sampled_from(PERIOD_POOL)),
    st.tuples(st.just("ms"), st.floats(0.001, 1e7, allow_nan=False, allow_infinity=False)),
    st.tuples(st.just("td"), st.sampled_from([1, 2, 3, 7, 10, 100, 333, 1000, 33333, 1000000, 86400000000])),
)
START = st.one_of(
    st.sampled_from([1e9, 1.7e9, 1700000000.123456, 2.0 ** 31, 2.0 ** 31 - 0.5, 3999999999.9999995, 4e9, 1234567890.987654]),
    st.floats(1e9, 4e9, allow_nan=False, allow_infinity=False),
    st.sampled_from([0.0, 1.5, 1000.25, 1e6]),
)
DELAY_POOL = ["0", "0", "0", "0.3", "p-ulp", "p", "p+ulp", "2.5", "1000", "0.999", "1.5", "7", "0", "0.3",
              "back_tiny", "back_half", "back_100", ("f", 0.5), ("f", 1.0000000000000002), ("f", 2.9999999999999996)]
DELAY = st.one_of(st.sampled_from(DELAY_POOL), st.sampled_from(DELAY_POOL), st.sampled_from(DELAY_POOL),
                  st.tuples(st.just("f"), st.floats(0, 3, allow_nan=False)))
PRE = st.sampled_from(["none", "none", "none", "none", "late0.3", "late1", "late2.5", "late1000", "backwait"])
CHUNKS = st.sampled_from([(), (), ("0.3",), ("p",), ("p+ulp",), ("2.5",), ("1000",), ("0.3", "p+ulp"), ("p", "p", "p"), ("2.5", "0.3")])
POST = st.sampled_from(["none"] * 12 + ["stop", "stop_start", "stop_start", "start", "start", "start",
                                        "start_soon", "start_soon", "start_soon", "stop_start_soon", "stop_start_soon"])
# (pre, delay, stop_inside, chunks, stop_while_running, post, same); post "start" restarts only if the callback is stopped by then
# same-instant stop: a separate timer registered for exactly the periodic deadline (before / after the periodic
# timer), either stopping directly ("t_") or through an add_callback queued in that iteration ("cb_"); "_start" = stop()+start()
SAME = st.sampled_from(["none"] * 40 + ["t_before", "t_after", "t_after", "cb_before", "cb_after",
                                        "t_before_start", "t_after_start", "cb_before_start", "cb_after_start"])
ACT = st.tuples(PRE, DELAY, st.sampled_from([False] * 11 + [True]), CHUNKS, st.sampled_from([False] * 8 + [True]), POST, SAME)

CASE = st.fixed_dictionaries({
    "start": START,
    "period": PERIOD,
    "jitter": st.sampled_from([0, 0, 0, 0.1, 1.0]),
    "rand": st.lists(st.one_of(st.sampled_from([0.0, 0.25, 0.5, 0.75, 0.9999999999999999]), st.floats(0, 0.9999999999999999)),
                     min_size=1, max_size=8),
    "kind": st.sampled_from(["plain", "plain", "raising", "coro", "coro", "coro_raising"]),
    # the FORM in which the callback is handed over (used for coroutine kinds / plain kinds respectively)
    "cform": st.sampled_from(["async_def", "gen_coroutine", "partial_async", "partial_gen", "lambda_coro", "lambda_gen_future",
                              "lambda_task", "callable_obj", "sync_returns_coroutine"]),
    "pform": st.sampled_from(["plain", "plain", "partial_plain", "lambda_plain"]),
    "acts": st.lists(ACT, min_size=1, max_size=30),
})

PARTS = {"main": run_case}


def main(ctx):
    ctx.run_replays(PARTS)
    ctx.explore(CASE, run_case, ctx.n(1500, 150000), name="main")
